"""Run context shared by all worlds: loop + env + net + event log + result assembly."""

from __future__ import annotations

import asyncio
from collections import Counter
import hashlib
import random
from typing import Any

from .loop import SimBudgetExceeded, SimDeadlock, SimLoop
from .net import FaultLayer, SimNet
from . import seams


class Run:
    def __init__(self, plan: dict[str, Any], *, start: float = 1000.0, max_time: float | None = 100_000.0,
                 max_iterations: int = 1_500_000):
        self.plan = plan
        cfg = plan.get("config", {})
        self.loop = SimLoop(start=start, batch=int(cfg.get("batch", 1)), max_time=max_time,
                            max_iterations=max_iterations)
        self.env = seams.SimEnv(self.loop, int(plan.get("seed", 0)),
                                epoch_base=float(cfg.get("epoch_base", 1_700_000_000.0)))
        seams.install(self.env)
        self.events: list[tuple] = []
        self.n = 0
        replay = bool(plan.get("replay"))
        self.faults = FaultLayer(int(plan.get("seed", 0)) ^ 0xFA17, plan.get("fault_policy"),
                                 recorded=plan.get("faults"), replay=replay)
        self.net = SimNet(self.loop, self.faults, self.record)
        self.violations: list[dict[str, Any]] = []
        self.probes: Counter[str] = Counter()
        self.extra_faults: Counter[str] = Counter()
        self.error: str | None = None

    # event log ------------------------------------------------------------
    def record(self, kind: str, actor: Any, detail: Any) -> int:
        self.n += 1
        self.events.append((self.n, self.loop._now, self.loop.iteration, kind, actor, detail))
        return self.n

    def violate(self, clause: str, sig: str, detail: str = "") -> None:
        if not any(v["clause"] == clause and v["sig"] == sig for v in self.violations):
            self.violations.append({"clause": clause, "sig": sig, "detail": detail})

    def digest(self) -> str:
        h = hashlib.sha256()
        for e in self.events:
            h.update(repr(e).encode())
        return h.hexdigest()

    def trace_hash(self, abstract: list[Any] | None = None) -> str:
        """Hash of the abstract trace: (kind, actor class) sequence unless given explicitly."""
        h = hashlib.sha1()
        if abstract is None:
            abstract = [(e[3], str(e[4]).split(":")[0]) for e in self.events]
        h.update(repr(abstract).encode())
        return h.hexdigest()[:16]

    # run ---------------------------------------------------------------------
    def execute(self, coro) -> None:
        try:
            self.loop.run_sim(coro)
        except SimDeadlock as exc:
            self.error = f"deadlock: {exc}"
        except SimBudgetExceeded as exc:
            self.error = f"budget: {exc}"

    def check_escapes(self, clause: str) -> None:
        """Exceptions that left a protocol callback or a loop callback."""
        for e in self.net.protocol_escapes:
            if e["type"] == "SimHang":
                # the harness watchdog interrupted code that did not return (signature without the function: it is whatever
                # frame the timer happened to hit)
                self.violate(clause, "hang-in-receive-callback", f"{e['where']}: {e['func']}() {e['msg']}")
                continue
            self.violate(clause, f"{e['type']}@{e['func']}", f"{e['where']}: {e['msg']} ({e['file']})")
        for e in self.loop.escapes:
            exc = e.get("exception")
            func = "?"
            if exc is not None and exc.__traceback__ is not None:
                import traceback
                tb = traceback.extract_tb(exc.__traceback__)
                inner = next((f for f in reversed(tb) if "/xknx/" in f.filename), tb[-1])
                func = inner.name
            self.violate(clause, f"{e['type']}@{func}", f"loop handler: {e['message']}")

    def result(self, *, nontrivial: bool = True, abstract: list[Any] | None = None) -> dict[str, Any]:
        plan = dict(self.plan)
        if not plan.get("replay"):
            plan["faults"] = dict(self.faults.used)
        faults = Counter(self.faults.fired)
        faults.update(self.extra_faults)
        self.probes["unretrieved_exceptions"] += len(self.loop.unretrieved)
        extra = {}
        import os
        if os.environ.get("VERIF_TRACE"):
            extra["events"] = self.events
        return {
            **extra,
            "violations": self.violations,
            "probes": {k: v for k, v in self.probes.items() if v},
            "faults": {k: v for k, v in faults.items() if v},
            "sim_s": self.loop.elapsed,
            "trace": self.trace_hash(abstract),
            "digest": self.digest(),
            "nontrivial": nontrivial,
            "plan": plan,
            "error": self.error,
        }


def rng_for(plan_seed: int, stream: str) -> random.Random:
    return random.Random(f"{plan_seed}/{stream}")


async def sleep_until(loop, t: float) -> None:
    d = t - loop.time()
    if d > 0:
        await asyncio.sleep(d)
