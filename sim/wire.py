"""Independent minimal KNXnet/IP and cEMI codecs used by peer models and oracles.

Nothing here imports xknx: a bug in an xknx codec can neither hide from nor
forge an oracle verdict.
"""

from __future__ import annotations

import socket
import struct
from typing import Any

# service types
SEARCH_REQ = 0x0201
SEARCH_RES = 0x0202
DESCR_REQ = 0x0203
DESCR_RES = 0x0204
CONNECT_REQ = 0x0205
CONNECT_RES = 0x0206
CONNSTATE_REQ = 0x0207
CONNSTATE_RES = 0x0208
DISCONNECT_REQ = 0x0209
DISCONNECT_RES = 0x020A
SEARCH_REQ_EXT = 0x020B
SEARCH_RES_EXT = 0x020C
DEVCFG_REQ = 0x0310
DEVCFG_ACK = 0x0311
TUNNEL_REQ = 0x0420
TUNNEL_ACK = 0x0421
ROUTING_IND = 0x0530
ROUTING_LOST = 0x0531
ROUTING_BUSY = 0x0532
SECURE_WRAPPER = 0x0950
SESSION_REQ = 0x0951
SESSION_RES = 0x0952
SESSION_AUTH = 0x0953
SESSION_STATUS = 0x0954
TIMER_NOTIFY = 0x0955

SVC_NAMES = {v: k for k, v in list(globals().items()) if isinstance(v, int) and k.isupper()}


def frame(svc: int, body: bytes) -> bytes:
    return bytes((0x06, 0x10)) + struct.pack(">HH", svc, 6 + len(body)) + body


def parse_header(data: bytes):
    """Return (svc, total_len) or None."""
    if len(data) < 6 or data[0] != 0x06 or data[1] != 0x10:
        return None
    svc, total = struct.unpack(">HH", data[2:6])
    return svc, total


def split(data: bytes):
    """Return (svc, body) for a complete, exact datagram, else None."""
    h = parse_header(data)
    if h is None or h[1] != len(data):
        return None
    return h[0], data[6:]


def split_all(data: bytes):
    """Return [(svc, body), ...] for a byte string holding one or more complete frames (TCP writes)."""
    out = []
    off = 0
    while off + 6 <= len(data):
        h = parse_header(data[off:])
        if h is None or h[1] < 6 or off + h[1] > len(data):
            break
        out.append((h[0], data[off + 6:off + h[1]]))
        off += h[1]
    return out


def hpai(ip: str = "0.0.0.0", port: int = 0, tcp: bool = False) -> bytes:
    return bytes((8, 2 if tcp else 1)) + socket.inet_aton(ip) + struct.pack(">H", port)


def parse_hpai(b: bytes):
    """Return (ip, port, proto)."""
    return socket.inet_ntoa(b[2:6]), struct.unpack(">H", b[6:8])[0], b[1]


def ia(area: int, line: int, dev: int) -> int:
    return (area << 12) | (line << 8) | dev


def ga(main: int, middle: int, sub: int) -> int:
    return (main << 11) | (middle << 8) | sub


# ---- core services
def connect_response(channel: int, status: int = 0, data_ep: bytes | None = None,
                     ind_addr: int = 0x1101, mgmt: bool = False) -> bytes:
    if status != 0:
        return frame(CONNECT_RES, bytes((channel, status)))
    crd = bytes((2, 3)) if mgmt else bytes((4, 4)) + struct.pack(">H", ind_addr)
    return frame(CONNECT_RES, bytes((channel, status)) + (data_ep or hpai()) + crd)


def parse_connect_request(body: bytes) -> dict[str, Any]:
    ctrl = parse_hpai(body[0:8])
    data = parse_hpai(body[8:16])
    cri = body[16:]
    return {"ctrl": ctrl, "data": data, "cri": cri, "type": cri[1] if len(cri) > 1 else None}


def connstate_response(channel: int, status: int = 0) -> bytes:
    return frame(CONNSTATE_RES, bytes((channel, status)))


def disconnect_request(channel: int, ctrl: bytes | None = None) -> bytes:
    return frame(DISCONNECT_REQ, bytes((channel, 0)) + (ctrl or hpai()))


def disconnect_response(channel: int, status: int = 0) -> bytes:
    return frame(DISCONNECT_RES, bytes((channel, status)))


def tunnelling_request(channel: int, seq: int, cemi: bytes) -> bytes:
    return frame(TUNNEL_REQ, bytes((4, channel, seq, 0)) + cemi)


def tunnelling_ack(channel: int, seq: int, status: int = 0) -> bytes:
    return frame(TUNNEL_ACK, bytes((4, channel, seq, status)))


def devcfg_request(channel: int, seq: int, cemi: bytes) -> bytes:
    return frame(DEVCFG_REQ, bytes((4, channel, seq, 0)) + cemi)


def devcfg_ack(channel: int, seq: int, status: int = 0) -> bytes:
    return frame(DEVCFG_ACK, bytes((4, channel, seq, status)))


def routing_indication(cemi: bytes) -> bytes:
    return frame(ROUTING_IND, cemi)


def routing_busy(wait_ms: int, control: int = 0, device_state: int = 0) -> bytes:
    return frame(ROUTING_BUSY, bytes((6, device_state)) + struct.pack(">HH", wait_ms, control))


def routing_lost(count: int, device_state: int = 0) -> bytes:
    return frame(ROUTING_LOST, bytes((4, device_state)) + struct.pack(">H", count))


# ---- cEMI
L_DATA_REQ = 0x11
L_DATA_IND = 0x29
L_DATA_CON = 0x2E


def cemi_ldata(code: int, src: int, dst: int, *, group: bool = True, tpci_apci: bytes = b"\x00\x80",
               ctrl1: int = 0xBC, hops: int = 6, ext_format: int = 0, add_info: bytes = b"") -> bytes:
    """L_Data frame. `tpci_apci` is the TPDU (TPCI/APCI octets followed by data)."""
    ctrl2 = (0x80 if group else 0) | ((hops & 7) << 4) | (ext_format & 0xF)
    npdu_len = len(tpci_apci) - 1
    return (bytes((code, len(add_info))) + add_info + bytes((ctrl1, ctrl2))
            + struct.pack(">HH", src, dst) + bytes((npdu_len,)) + tpci_apci)


def parse_cemi_ldata(raw: bytes) -> dict[str, Any] | None:
    if len(raw) < 2:
        return None
    code = raw[0]
    ail = raw[1]
    p = 2 + ail
    if len(raw) < p + 7:
        return None
    ctrl1, ctrl2 = raw[p], raw[p + 1]
    src, dst = struct.unpack(">HH", raw[p + 2:p + 6])
    ln = raw[p + 6]
    tpdu = raw[p + 7:]
    return {"code": code, "ctrl1": ctrl1, "ctrl2": ctrl2, "src": src, "dst": dst,
            "group": bool(ctrl2 & 0x80), "len": ln, "tpdu": tpdu}


def gv_write_small(v: int) -> bytes:
    """TPDU of GroupValueWrite with a 6-bit value."""
    return bytes((0x00, 0x80 | (v & 0x3F)))


def gv_write(data: bytes) -> bytes:
    return bytes((0x00, 0x80)) + data


def gv_read() -> bytes:
    return bytes((0x00, 0x00))


def gv_response(data: bytes) -> bytes:
    return bytes((0x00, 0x40)) + data


def gv_response_small(v: int) -> bytes:
    return bytes((0x00, 0x40 | (v & 0x3F)))
