"""Simulated IP network: UDP unicast, multicast groups, TCP byte streams, faults.

Everything xknx does with sockets goes through `loop.create_datagram_endpoint`
and `loop.create_connection`, which `SimLoop` forwards here.  Peer models use
the plain-callback API (`udp_bind`, `tcp_listen`).  Every packet passes the
fault layer (`FaultLayer.decide`) which returns a decision recorded under a
stable key `(link, ordinal)`; in replay mode decisions are looked up instead of
drawn.
"""

from __future__ import annotations

import asyncio
from collections import Counter
import random
from typing import Any, Callable


class FaultLayer:
    """Per-packet fault decisions, drawn lazily from a dedicated PRNG and recorded.

    policy: {"drop": p, "dup": p, "delay": p, "delay_max": s, "corrupt": p,
             "lat": (lo, hi)}.  In replay mode (`recorded` given and
    `replay=True`) an absent key means base latency and no fault.
    """

    def __init__(self, seed: int, policy: dict[str, Any] | None = None,
                 recorded: dict[str, Any] | None = None, replay: bool = False) -> None:
        self.rng = random.Random(seed)
        self.policy = policy or {}
        self.replay = replay
        self.recorded: dict[str, Any] = dict(recorded or {})
        self.used: dict[str, Any] = {}
        self.ordinals: Counter[str] = Counter()
        self.fired: Counter[str] = Counter()
        self.active = True  # faults can be switched off ("faults stop")
        self.base_lat = tuple(self.policy.get("lat", (0.001, 0.004)))

    def decide(self, link: str, size: int) -> dict[str, Any]:
        """Return {"lat": s, optional "drop":1, "dup": extra_delay, "corrupt": (offset, bit)}."""
        n = self.ordinals[link]
        self.ordinals[link] = n + 1
        key = f"{link}#{n}"
        if self.replay:
            d = self.recorded.get(key)
            if d is None:
                d = {"lat": self.base_lat[0]}
            else:
                self.used[key] = d
            self._count(d)
            return d
        rng = self.rng
        lo, hi = self.base_lat
        d: dict[str, Any] = {"lat": round(lo + (hi - lo) * rng.random(), 6)}
        pol = self.policy
        faulty = False
        if self.active and pol:
            r = rng.random()
            if r < pol.get("drop", 0.0):
                d["drop"] = 1
                faulty = True
            else:
                if rng.random() < pol.get("dup", 0.0):
                    d["dup"] = round(rng.choice(pol.get("dup_delays", (0.0005, 0.01, 0.5, 1.2))), 6)
                    faulty = True
                if rng.random() < pol.get("delay", 0.0):
                    d["lat"] = round(d["lat"] + rng.choice(pol.get("delays", (0.02, 0.3, 0.999, 1.001, 1.5, 3.0))), 6)
                    d["delayed"] = 1
                    faulty = True
                if size and rng.random() < pol.get("corrupt", 0.0):
                    d["corrupt"] = [rng.randrange(size), rng.randrange(8)]
                    faulty = True
        self.used[key] = d  # every decision is recorded: replay must reproduce latencies too
        self._count(d)
        return d

    def _count(self, d):
        if "drop" in d:
            self.fired["drop"] += 1
        if "dup" in d:
            self.fired["dup"] += 1
        if "delayed" in d:
            self.fired["delay"] += 1
        if "corrupt" in d:
            self.fired["corrupt"] += 1


def _corrupt(data: bytes, spec) -> bytes:
    off, bit = spec
    if off >= len(data):
        return data
    b = bytearray(data)
    b[off] ^= 1 << bit
    return bytes(b)


class SimDatagramTransport(asyncio.DatagramTransport):
    """What xknx gets back from create_datagram_endpoint."""

    def __init__(self, net: "SimNet", protocol, addr: tuple[str, int], mcast_group=None):
        super().__init__()
        self.net = net
        self.protocol = protocol
        self.addr = addr
        self.mcast_group = mcast_group
        self.closed = False
        self.name = f"{addr[0]}:{addr[1]}" + ("/m" if mcast_group else "")

    def get_extra_info(self, name, default=None):
        if name == "sockname":
            return self.addr
        if name == "peername":
            return None
        return default

    def sendto(self, data, addr=None):
        if self.closed:
            return
        self.net._udp_send(self, bytes(data), addr)

    def close(self):
        if self.closed:
            return
        self.closed = True
        self.net._udp_close(self)
        self.net.loop.call_soon(self.protocol.connection_lost, None)

    def is_closing(self):
        return self.closed

    def abort(self):
        self.close()

    # delivery from the network
    def _deliver(self, data: bytes, src: tuple[str, int]):
        if self.closed:
            return
        self.net.guard(self.protocol.datagram_received, data, src, where=f"datagram_received@{self.name}")


class PeerUDPSocket:
    """UDP socket for peer models (plain callbacks)."""

    def __init__(self, net, addr, on_datagram, mcast_group=None):
        self.net = net
        self.addr = addr
        self.on_datagram = on_datagram
        self.mcast_group = mcast_group
        self.closed = False
        self.name = f"{addr[0]}:{addr[1]}" + ("/m" if mcast_group else "")

    def sendto(self, data: bytes, addr, **kw):
        if not self.closed:
            self.net._udp_send(self, bytes(data), addr, **kw)

    def close(self):
        self.closed = True
        self.net._udp_close(self)

    def _deliver(self, data, src):
        if not self.closed:
            self.on_datagram(data, src, self)


class SimTCPTransport(asyncio.Transport):
    """Client side of a simulated TCP connection (handed to xknx)."""

    def __init__(self, net, protocol, conn):
        super().__init__()
        self.net = net
        self.protocol = protocol
        self.conn = conn
        self.closed = False

    def get_extra_info(self, name, default=None):
        if name == "sockname":
            return self.conn.client_addr
        if name == "peername":
            return self.conn.server_addr
        return default

    def write(self, data):
        if self.closed:
            return
        self.conn._client_write(bytes(data))

    def close(self):
        if self.closed:
            return
        self.closed = True
        self.conn._client_closed()
        lag = getattr(self.net, "tcp_close_lag", 0.0)
        if lag:
            # asyncio reports connection_lost for a closed transport only when its write buffer is flushed - later, when
            # the peer is slow to read
            self.net.loop.call_later(lag, self._lost, None)
        else:
            self.net.loop.call_soon(self._lost, None)

    def abort(self):
        self.close()

    def is_closing(self):
        return self.closed

    def _lost(self, exc):
        self.net.guard(self.protocol.connection_lost, exc, where="connection_lost")


class TCPConn:
    """One simulated TCP connection; the server side is a peer model."""

    def __init__(self, net, cid, client_addr, server_addr):
        self.net = net
        self.cid = cid
        self.client_addr = client_addr
        self.server_addr = server_addr
        self.transport: SimTCPTransport | None = None
        self.server = None  # peer handler object with on_data(conn, data), on_close(conn)
        self.open = True
        self.client_closed = False
        self.server_closed = False
        self._c2s_t = 0.0  # last scheduled delivery time (keeps stream order)
        self._s2c_t = 0.0
        self.link_c2s = f"tcp{cid}:c>s"
        self.link_s2c = f"tcp{cid}:s>c"
        self.chunker = None  # optional fn(data)->list[bytes] for re-chunking to client

    # client -> server
    def _client_write(self, data: bytes):
        net = self.net
        net.log("tcp_out", self.cid, data.hex())
        if not self.open and not self.client_closed:
            return
        if self.client_closed:
            return
        d = net.faults.decide(self.link_c2s, 0)
        t = max(net.loop.time() + d["lat"], self._c2s_t)
        self._c2s_t = t
        net.loop.at(t, lambda: self._to_server(data), label="tcp_c2s")

    def _to_server(self, data):
        # data written before the client closed still reaches the server (FIN follows the data)
        if (self.open or self.client_closed) and not self.server_closed and self.server is not None:
            self.server.on_data(self, data)

    def _client_closed(self):
        self.client_closed = True
        self.net.log("tcp_client_close", self.cid, "")
        if self.open:
            self.open = False
            t = max(self.net.loop.time() + 0.001, self._c2s_t)
            self.net.loop.at(t, lambda: self.server and self.server.on_close(self), label="tcp_close")

    # server -> client
    def send_to_client(self, data: bytes, lat: float | None = None):
        if not self.open:
            return
        net = self.net
        d = net.faults.decide(self.link_s2c, 0)
        base = d["lat"] if lat is None else lat
        chunks = self.chunker(data) if self.chunker else [data]
        t = max(net.loop.time() + base, self._s2c_t)
        for ch in chunks:
            self._s2c_t = t
            net.loop.at(t, (lambda c=ch: self._to_client(c)), sock=self, label="tcp_s2c")

    def _to_client(self, chunk):
        tr = self.transport
        if tr is None or tr.closed:
            return
        self.net.log("tcp_in", self.cid, chunk.hex())
        if self.net.pre_deliver is not None:
            self.net.pre_deliver("tcp", self, chunk)
        self.net.guard(tr.protocol.data_received, chunk, where="data_received")

    def server_close(self, exc: Exception | None = None, lat: float = 0.001):
        """Server closes / resets the connection."""
        if not self.open:
            return
        self.open = False
        self.server_closed = True
        t = max(self.net.loop.time() + lat, self._s2c_t)
        self.net.loop.at(t, lambda: self._lost(exc), sock=self, label="tcp_lost")

    def _lost(self, exc):
        tr = self.transport
        if tr is None or tr.closed:
            return
        tr.closed = True
        self.net.log("tcp_lost", self.cid, type(exc).__name__ if exc else "eof")
        tr._lost(exc)


class SimNet:
    def __init__(self, loop, faults: FaultLayer | None = None, log: Callable | None = None):
        self.loop = loop
        loop.net = self
        self.faults = faults or FaultLayer(0)
        self._log = log
        self.udp: dict[tuple[str, int], Any] = {}
        self.mcast: dict[tuple[str, int], list[Any]] = {}
        self.tcp_listeners: dict[tuple[str, int], Any] = {}
        self.tcp_conns: list[TCPConn] = []
        self._next_port: Counter[str] = Counter()
        self.partitions: set[frozenset] = set()
        self.local_ip = "10.0.0.1"
        self.connect_hook: Callable | None = None  # fn(host, port) -> None | Exception | float delay
        self.udp_create_hook: Callable | None = None
        self.protocol_escapes: list[dict[str, Any]] = []
        self.stats: Counter[str] = Counter()
        self.pre_deliver: Callable | None = None     # optional hook(kind, receiver, data), called right before a delivery

    def log(self, kind, actor, detail):
        if self._log is not None:
            self._log(kind, actor, detail)

    # run a protocol callback the way asyncio would: an exception is reported, not propagated
    def guard(self, fn, *args, where=""):
        try:
            fn(*args)
        except (SystemExit, KeyboardInterrupt):
            raise
        except BaseException as exc:  # pylint: disable=broad-except
            import traceback
            tb = traceback.extract_tb(exc.__traceback__)
            inner = next((f for f in reversed(tb) if "/xknx/" in f.filename), tb[-1])
            self.protocol_escapes.append({
                "where": where, "type": type(exc).__name__,
                "func": inner.name, "file": inner.filename.rsplit("/", 1)[-1],
                "msg": str(exc)[:200],
            })
            self.log("escape", where, f"{type(exc).__name__}@{inner.name}")

    def _alloc_port(self, host):
        self._next_port[host] += 1
        return 40000 + self._next_port[host]

    # ---- UDP
    def create_datagram_endpoint(self, protocol_factory, local_addr, remote_addr, sock):
        if self.udp_create_hook is not None:
            exc = self.udp_create_hook(local_addr, sock)
            if exc is not None:
                raise exc
        protocol = protocol_factory()
        if sock is not None:
            # multicast listener token: see seams.FakeMcastSock
            group = (sock.group, sock.port)
            tr = SimDatagramTransport(self, protocol, (sock.own_ip, sock.port), mcast_group=group)
            self.mcast.setdefault(group, []).append(tr)
        else:
            host, port = local_addr
            if host in ("0.0.0.0", ""):
                host = self.local_ip
            if port == 0:
                port = self._alloc_port(host)
            if (host, port) in self.udp:
                raise OSError(98, "Address already in use")
            tr = SimDatagramTransport(self, protocol, (host, port))
            self.udp[(host, port)] = tr
        protocol.connection_made(tr)
        return tr, protocol

    def udp_bind(self, host, port, on_datagram) -> PeerUDPSocket:
        if port == 0:
            port = self._alloc_port(host)
        s = PeerUDPSocket(self, (host, port), on_datagram)
        self.udp[(host, port)] = s
        return s

    def mcast_join(self, host, group, port, on_datagram) -> PeerUDPSocket:
        s = PeerUDPSocket(self, (host, port), on_datagram, mcast_group=(group, port))
        self.mcast.setdefault((group, port), []).append(s)
        return s

    def _udp_close(self, s):
        if s.mcast_group:
            lst = self.mcast.get(s.mcast_group, [])
            if s in lst:
                lst.remove(s)
        elif self.udp.get(s.addr) is s:
            del self.udp[s.addr]

    def _udp_send(self, s, data: bytes, addr, lat: float | None = None, nofault: bool = False):
        src = s.addr
        self.log("udp_out", f"{src[0]}:{src[1]}>{addr[0]}:{addr[1]}", data.hex())
        if addr in self.mcast or addr[0].startswith("224."):
            targets = list(self.mcast.get(addr, []))
            for i, t in enumerate(targets):
                self._udp_deliver(f"{src[0]}>{t.addr[0]}:m", src, t, data, lat, nofault)
            return
        if frozenset((src[0], addr[0])) in self.partitions:
            self.faults.fired["partition_drop"] += 1
            return
        link = f"{src[0]}:{src[1]}>{addr[0]}:{addr[1]}"
        self._udp_deliver(link, src, addr, data, lat, nofault)

    def _udp_deliver(self, link, src, target, data, lat, nofault):
        if nofault:
            d = {"lat": lat if lat is not None else 0.001}
        else:
            d = self.faults.decide(link, len(data))
            if lat is not None:
                d = dict(d)
                d["lat"] = lat + (d["lat"] if "delayed" in d else 0.0)
        if "drop" in d:
            return
        if "corrupt" in d:
            data = _corrupt(data, d["corrupt"])
        now = self.loop.time()

        def deliver(data=data):
            t = target if not isinstance(target, tuple) else self.udp.get(target)
            if t is None:
                self.stats["udp_no_listener"] += 1
                return
            if isinstance(target, tuple) and frozenset((src[0], target[0])) in self.partitions:
                self.faults.fired["partition_drop"] += 1
                return
            self.log("udp_in", f"{src[0]}:{src[1]}>{t.addr[0]}:{t.addr[1]}", data.hex())
            if self.pre_deliver is not None:
                self.pre_deliver("udp", t, data)      # a world may act in the very iteration a datagram is read, just before
            t._deliver(data, src)

        # the event is keyed by the *receiving socket* so that one socket gets at most
        # `batch` datagrams per iteration (selector-faithful with batch=1)
        sk = target if not isinstance(target, tuple) else ("udp", target)
        sk = self._sock_key(sk)
        # "_c": addressed to a socket of the process under test (matters only for SimLoop.stall)
        to_client = target[0] == self.local_ip if isinstance(target, tuple) else isinstance(target, SimDatagramTransport)
        lab = "udp_c" if to_client else "udp"
        self.loop.at(now + d["lat"], deliver, sock=sk, label=lab)
        if "dup" in d:
            self.loop.at(now + d["lat"] + d["dup"], deliver, sock=sk, label=lab + "_dup")

    _sock_keys: dict

    def _sock_key(self, k):
        # stable object per receiving socket (loop groups by id())
        if not isinstance(k, tuple):
            return k
        d = self.__dict__.setdefault("_sock_keys", {})
        o = d.get(k)
        if o is None:
            o = d[k] = object()
        return o

    # ---- TCP
    def tcp_listen(self, host, port, server):
        """server: object with on_accept(conn), on_data(conn, data), on_close(conn)."""
        self.tcp_listeners[(host, port)] = server

    def tcp_unlisten(self, host, port):
        self.tcp_listeners.pop((host, port), None)

    async def create_connection(self, protocol_factory, host, port):
        delay = 0.002
        if self.connect_hook is not None:
            r = self.connect_hook(host, port)
            if isinstance(r, BaseException):
                self.log("tcp_connect", f"{host}:{port}", "")
                await asyncio.sleep(0.001)
                self.log("tcp_refused", f"{host}:{port}", type(r).__name__)
                raise r
            if isinstance(r, (int, float)):
                delay = float(r)
        self.log("tcp_connect", f"{host}:{port}", "")
        self.stats["tcp_connect_attempts"] += 1
        await asyncio.sleep(delay)
        server = self.tcp_listeners.get((host, port))
        if server is None or frozenset((self.local_ip, host)) in self.partitions or getattr(server, "down", False):
            self.log("tcp_refused", f"{host}:{port}", "")
            raise ConnectionRefusedError(111, "Connection refused")
        cid = len(self.tcp_conns)
        conn = TCPConn(self, cid, (self.local_ip, self._alloc_port(self.local_ip)), (host, port))
        self.tcp_conns.append(conn)
        protocol = protocol_factory()
        tr = SimTCPTransport(self, protocol, conn)
        conn.transport = tr
        conn.server = server
        protocol.connection_made(tr)
        self.log("tcp_open", cid, "")
        server.on_accept(conn)
        return tr, protocol
