"""Gateways that answer KNXnet/IP discovery (SearchRequest / SearchRequestExtended) with planned DIBs
and accept plain UDP, plain TCP and IP Secure (TCP) connections alike - so that a client that *would*
downgrade is observed doing so."""

from __future__ import annotations

import socket
import struct
from typing import Any

from . import wire as W
from .secure_gateway import SecureGateway

FAM_CORE, FAM_DEVMGMT, FAM_TUNNEL, FAM_ROUTING, FAM_SECURITY = 0x02, 0x03, 0x04, 0x05, 0x09
MCAST = ("224.0.23.12", 3671)


def dib_device_info(ia: int, name: str, serial: bytes, mcast: str = "224.0.23.12") -> bytes:
    nm = name.encode("latin-1")[:30].ljust(30, b"\x00")
    body = bytes((0x02, 0x00)) + struct.pack(">H", ia) + bytes(2) + serial + socket.inet_aton(mcast) + bytes((0, 1, 2, 3, 4, ia & 0xFF)) + nm
    return bytes((2 + len(body), 0x01)) + body


def dib_families(pairs: list[tuple[int, int]], secured: bool = False) -> bytes:
    body = b"".join(bytes(p) for p in pairs)
    return bytes((2 + len(body), 0x06 if secured else 0x02)) + body


def dib_tunnel_info(slots: list[tuple[int, int]]) -> bytes:
    body = struct.pack(">H", 254) + b"".join(struct.pack(">HH", ia, st) for ia, st in slots)
    return bytes((2 + len(body), 0x07)) + body


class DiscGateway(SecureGateway):
    def __init__(self, net, rng, caps: dict[str, Any], **kw):
        super().__init__(net, rng, **kw)
        self.caps = caps
        self.plain_tcp_conns: set[int] = set()
        self.mc = net.mcast_join(self.ip, MCAST[0], MCAST[1], self._on_mcast)
        self.search_seen = 0
        self.answered: list[str] = []
        self.disc_script = caps.get("disc", {})    # {"ext": "ok"|"drop"|lat, "plain": ...}
        self.plain_connects: list[dict[str, Any]] = []   # CONNECT_REQ received outside a secure session

    # ---- discovery
    def _on_mcast(self, data, src, sock):
        sp = W.split(data)
        if sp is None or self.down:
            return
        svc, body = sp
        if svc not in (W.SEARCH_REQ, W.SEARCH_REQ_EXT) or len(body) < 8:
            return
        self.search_seen += 1
        ip, port, _ = W.parse_hpai(body[:8])
        ext = svc == W.SEARCH_REQ_EXT
        c = self.caps
        if ext and c["core"] < 2:
            return      # Core V1 devices do not know SearchRequestExtended
        beh = self.disc_script.get("ext" if ext else "plain", "ok")
        if beh == "drop":
            return
        fams = [(FAM_CORE, c["core"]), (FAM_DEVMGMT, 1)]
        if c["tunnelling"]:
            fams.append((FAM_TUNNEL, c["tunnelling"]))
        if c["routing"]:
            fams.append((FAM_ROUTING, 1))
        if c["sec_tunnelling"] or c["sec_routing"]:
            fams.append((FAM_SECURITY, 1))
        parts = [("info", dib_device_info(self.ind_addr, c.get("name", "gw"), self.SERIAL)), ("fam", dib_families(fams))]
        if ext:
            sec = []
            if c["sec_tunnelling"]:
                sec.append((FAM_TUNNEL, 1))
            if c["sec_routing"]:
                sec.append((FAM_ROUTING, 1))
            if sec or c.get("empty_secured_dib"):
                parts.append(("sec", dib_families(sec, secured=True)))
            if c["tunnelling"]:
                parts.append(("tun", dib_tunnel_info([(self.ind_addr + 1, 0x0007), (self.ind_addr + 2, 0x0007)])))
        # the order of description blocks in a response is not fixed by the standard
        order = c.get("dib_order", "std")
        if order == "secured_first":
            parts.sort(key=lambda p: 0 if p[0] == "sec" else 1)
        elif order == "reversed":
            parts.reverse()
        elif order == "families_last":
            parts.sort(key=lambda p: 1 if p[0] == "fam" else 0)
        dibs = b"".join(p[1] for p in parts)
        fr = W.frame(W.SEARCH_RES_EXT if ext else W.SEARCH_RES, W.hpai(self.ip, self.port) + dibs)
        lat = beh if isinstance(beh, (int, float)) else None
        self.answered.append("ext" if ext else "plain")
        self.sock.sendto(fr, (ip, port) if ip != "0.0.0.0" else src, lat=lat)

    # ---- plain TCP alongside secure sessions
    def on_data(self, conn, data: bytes):
        if conn.cid in self.plain_tcp_conns:
            return super(SecureGateway, self).on_data(conn, data)
        s = self.sessions.get(conn.cid)
        if s is not None and not s.client_frames and len(data) >= 4 and data[2:4] != struct.pack(">H", W.SESSION_REQ):
            # first frame is not a SessionRequest: a plain TCP client
            self.plain_tcp_conns.add(conn.cid)
            return super(SecureGateway, self).on_data(conn, data)
        return super().on_data(conn, data)

    def _connect(self, body, via, rec):
        secure = via[0] == "tcp" and via[1].cid not in self.plain_tcp_conns
        if not secure:
            self.plain_connects.append({"via": via[0], "t": self.loop.time()})
        return super()._connect(body, via, rec)
