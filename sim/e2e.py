"""W-E2E: the whole stack at once.

A real `XKNX.start()` (KNXIPInterface, UDPTunnel / TCPTunnel, ConnectionHeartbeat, ConnectionManager, CEMIHandler,
TelegramQueue, StateUpdater, Devices, Switch devices) against `SimGateway` with a KNX bus model behind it: the gateway
confirms every accepted L_Data.req with an L_Data.con, answers GroupValueRead on state addresses, forwards
spontaneous group telegrams of other bus devices - all of it through a *faithful reliable sender* (one
TunnellingRequest outstanding, repeated once after 1 s without acknowledgement, then DisconnectRequest), while the
network loses, duplicates and delays datagrams, the gateway crashes, restarts and disconnects, and the user queues
telegrams at any time.

The world is shared; each property module judges only its own clauses over the recorded observations (`judge_*`).
It exists because the per-property worlds cut the stack at a seam (stub interface below the cEMI handler, synthetic
connection state changes): here the same clauses are decided across the seams.
"""

from __future__ import annotations

import asyncio
from collections import deque
import random
from typing import Any

from . import wire as W
from .gateway import SimGateway
from .world import Run

GA_U = W.ga(7, 0, 1)      # user telegrams, unique 2-octet ids
GA_IN = W.ga(7, 0, 2)     # telegrams of other bus devices, unique 2-octet ids
BUS_DEV = W.ia(1, 1, 100)
SW_CMD = [W.ga(7, 1, i + 1) for i in range(4)]
SW_STATE = [W.ga(7, 2, i + 1) for i in range(4)]
SYNC = [True, "init", "expire 60", "every 60", False]
GA_K = W.ga(7, 3, 1)      # group address with a Data Secure key (Data Secure variant of the world, C18)

REAL = ["xknx.XKNX.start/stop", "xknx.io.KNXIPInterface", "xknx.io.tunnel.UDPTunnel/TCPTunnel", "xknx.io.request_response.*",
        "xknx.io.transport.*", "xknx.io.data_connection.ConnectionHeartbeat", "xknx.core.ConnectionManager",
        "xknx.cemi.CEMIHandler", "xknx.core.TelegramQueue", "xknx.core.StateUpdater", "xknx.core.ValueReader",
        "xknx.devices.Devices/Switch", "xknx.remote_value.*"]
STUB = ["gateway + KNX bus behind it (SimGateway + reliable sender, bus responder)", "network (SimNet + FaultLayer)",
        "loop clock/selector (SimLoop)"]


def gen(seed: int, tier: str, focus: str) -> dict[str, Any]:
    rng = random.Random(seed ^ 0xE2E0)
    transport = rng.choice(["udp", "udp", "tcp"])
    horizon = rng.choice([150.0, 300.0]) if rng.random() < 0.15 else rng.choice([4.0, 12.0, 40.0])
    n_sw = rng.choice([2, 3, 4]) if focus == "C35" else rng.choice([0, 1, 2, 4])
    switches = [{"sync": rng.choice(SYNC), "resp": rng.choice([0.01, 0.05, 0.4, 1.5, None])} for _ in range(n_sw)]
    ops: list[dict[str, Any]] = []
    n_tg = rng.choice([0, 2, 5, 10, 20])
    n_ind = rng.choice([0, 2, 5, 10, 20])
    if focus == "C14":
        n_ind = max(n_ind, 5)
    if focus == "C33":
        n_tg = max(n_tg, 5)
    tid = 0
    t = 0.0
    burst = rng.random() < 0.5
    for _ in range(n_tg):
        t = t + rng.choice([0.0, 0.0, 0.001, 0.05]) if burst else rng.uniform(0.0, horizon)
        tid += 1
        ops.append({"t": round(t if burst else t, 6), "op": "tg", "id": tid})
    t = rng.uniform(0.0, horizon / 2)
    burst_in = rng.random() < 0.5
    for _ in range(n_ind):
        t = t + rng.choice([0.0, 0.0, 0.002, 0.03, 0.5]) if burst_in else rng.uniform(0.0, horizon)
        tid += 1
        ops.append({"t": round(t, 6), "op": "ind", "id": tid})
    for i in range(n_sw):
        for _ in range(rng.choice([0, 0, 1, 2])):
            ops.append({"t": round(rng.uniform(0.0, horizon), 6), "op": rng.choice(["set", "ind_state"]), "i": i,
                        "v": rng.randrange(2)})
    kinds = ["srv_disconnect", "gw_crash", "srv_disconnect"] + (["tcp_reset", "tcp_close"] if transport == "tcp" else [])
    clean = rng.random() < 0.2
    for _ in range(0 if clean else rng.choice([0, 1, 1, 2, 3])):
        k = rng.choice(kinds)
        tt = round(rng.uniform(0.05, horizon), 6)
        ops.append({"t": tt, "op": k})
        if k == "gw_crash":
            ops.append({"t": round(tt + rng.choice([0.3, 2.0, 8.0, 30.0]), 6), "op": "gw_restart"})
    if not clean and rng.random() < 0.3:
        # slow / stalled node: the process under test makes no progress for a while (its timers and everything addressed
        # to it wait, the gateway and the bus go on)
        for _ in range(rng.choice([1, 1, 2])):
            ops.append({"t": round(rng.uniform(0.05, horizon), 6), "op": "stall", "d": rng.choice([0.3, 1.2, 2.5, 4.0, 11.0])})
    gws: dict[str, Any] = {}
    policy = None
    if not clean:
        if transport == "udp" and rng.random() < 0.3:
            gws["ack"] = [rng.choice([None, None, {"k": "none"}, {"k": "late", "d": rng.choice([0.5, 1.2])}, {"k": "dup", "d": 0.3}])
                          for _ in range(12)]
        if horizon > 100 and rng.random() < 0.6:
            gws["connstate"] = [rng.choice([None, {"k": "drop"}, {"k": "error", "status": 0x21}]) for _ in range(8)]
        if rng.random() < 0.2:
            gws["connect"] = [None] + [rng.choice([None, {"k": "drop"}, {"k": "error", "status": 0x24}, {"k": "ok", "lat": 1.2}])
                                       for _ in range(4)]
        if transport == "udp" and rng.random() < 0.45:
            policy = {"drop": rng.choice([0.0, 0.05, 0.12]), "dup": rng.choice([0.0, 0.1, 0.2]),
                      "delay": rng.choice([0.0, 0.1]), "delays": [0.02, 0.3, 0.999, 1.001, 1.5]}
    ds = None
    if focus == "C18":
        # Data Secure variant: the interface is started with a keyring holding a key for GA_K; the bus sends plain and genuine
        # secured group writes to it, the user sends to it, and the same XKNX object is stopped - with a plain frame arriving
        # while it waits for the DisconnectResponse - and started again
        for _ in range(rng.choice([1, 3, 6])):
            tid += 1
            ops.append({"t": round(rng.uniform(0.0, horizon), 6), "op": "plain_k", "id": tid})
        for _ in range(rng.choice([1, 3])):
            tid += 1
            ops.append({"t": round(rng.uniform(0.0, horizon), 6), "op": "sec_k", "id": tid})
        for _ in range(rng.choice([0, 2])):
            tid += 1
            ops.append({"t": round(rng.uniform(0.0, horizon), 6), "op": "out_k", "id": tid})
        ds = {"during_stop": rng.random() < 0.7, "stop_lag": rng.choice([0.3, 1.5, None]),
              # a plain frame for the keyed address is forwarded right behind the ConnectResponse of every connection - the
              # first one reaches the client while XKNX.start() has not returned yet
              "early_plain": rng.random() < 0.5,
              "at": rng.choice([0.0005, 0.0015, 0.05, 0.2]), "second_life": rng.random() < 0.8}
    ops.sort(key=lambda o: o["t"])
    ind_during_stop = None
    if focus == "C33" and rng.random() < 0.5:
        # a group telegram of another bus device reaches the client while XKNX.stop() waits for the DisconnectResponse
        ind_during_stop = {"at": rng.choice([0.05, 0.2, 0.5]), "lag": rng.choice([0.8, 0.8, None])}
    cfg = {"mode": "e2e", "focus": focus, "ds": ds, "transport": transport, "horizon": horizon, "batch": 1 if rng.random() < 0.8 else 3,
           "ind_during_stop": ind_during_stop,
           "rate_limit": rng.choice([0, 20, 50]), "auto_reconnect_wait": rng.choice([1, 3]),
           "con_lat": rng.choice([0.002, 0.02, 0.3]), "final_reconnect": rng.random() < 0.5,
           "local_port": rng.choice([0, 53000]), "route_back": transport == "udp" and rng.random() < 0.2}
    return {"seed": seed, "tier": "S" if cfg["batch"] == 1 else "P", "config": cfg, "ops": ops, "gw": gws,
            "switches": switches, "fault_policy": policy}


class ReliableSender:
    """Server side of the tunnelling data connection as the specification describes it: one request outstanding, one
    repetition after 1 s without acknowledgement, then the connection is closed."""

    def __init__(self, R, gw: SimGateway):
        self.R, self.gw, self.loop = R, gw, R.loop
        self.q: deque = deque()
        self.cur: dict[str, Any] | None = None
        self.gen = 0
        self.log: list[dict[str, Any]] = []
        gw.on_srv_ack = self.on_ack

    def push(self, cid: int | None, cemi: bytes, meta: dict[str, Any]):
        meta.update({"cid": cid, "cemi": cemi, "sent": 0, "acked": False, "t": None})
        self.log.append(meta)
        if cid is None or cid not in self.gw.channels:
            meta["dropped"] = "no-channel"
            return
        self.q.append(meta)
        self._pump()

    def _pump(self):
        while self.cur is None and self.q:
            m = self.q.popleft()
            ch = self.gw.channels.get(m["cid"])
            if ch is None:
                m["dropped"] = "channel-closed"
                continue
            m["seq"] = self.gw.send_request(m["cid"], m["cemi"])
            m["sent"] = 1
            m["t"] = self.loop.time()
            if ch.via[0] == "tcp":
                continue           # no acknowledgements on TCP
            self.cur = m
            self._arm()

    def _arm(self):
        self.gen += 1
        g = self.gen
        self.loop.after(1.0, lambda: self._timeout(g), label="srv_ack_timeout")

    def on_ack(self, cid: int, seq: int, status: int):
        m = self.cur
        if m is not None and m["cid"] == cid and m["seq"] == seq and status == 0:
            m["acked"] = True
            self.cur = None
            self.gen += 1
            self._pump()

    def _timeout(self, g: int):
        m = self.cur
        if m is None or g != self.gen:
            return
        if m["cid"] not in self.gw.channels:
            self.cur = None
            self._pump()
            return
        if m["sent"] == 1:
            m["sent"] = 2
            self.gw.send_request(m["cid"], m["cemi"], seq=m["seq"])
            self.R.extra_faults["srv_repetition"] += 1
            self._arm()
            return
        self.R.extra_faults["srv_gives_up"] += 1
        cid = m["cid"]
        self.cur = None
        self.gw.server_disconnect(cid)
        for x in list(self.q):
            if x["cid"] == cid:
                x["dropped"] = "channel-closed"
                self.q.remove(x)
        self._pump()


def run(plan: dict[str, Any]):
    """Execute the plan; returns (R, obs)."""
    from xknx import XKNX
    from xknx.core import XknxConnectionState
    from xknx.devices import Switch
    from xknx.dpt import DPTArray
    from xknx.exceptions import CommunicationError
    from xknx.io import ConnectionConfig, ConnectionType, SecureConfig
    from xknx.telegram import GroupAddress, IndividualAddress, Telegram, TelegramDirection
    from xknx.telegram.apci import GroupValueRead, GroupValueWrite

    cfg = plan["config"]
    R = Run(plan, max_time=30000.0)
    loop, net = R.loop, R.net
    udp = cfg["transport"] == "udp"
    obs: dict[str, Any] = {"queued": [], "accepted": [], "accepted_reads": [], "cb_in": [], "cb_con_echo": [], "states": [],
                           "reads": [], "stop_ret": None, "start": None, "faults_stopped_n": None, "faults_stopped_at": None,
                           "unfinished": None, "final": {}, "udp": udp, "sender": None, "dev": []}
    switches = plan.get("switches") or []
    ds = cfg.get("ds")
    ds_key = random.Random(plan["seed"] ^ 0xD5).randbytes(16)
    ds_seq = [0]
    obs.update(k_cb=[], k_issue=[], k_dev=[], k_out=[], k_plain=set(), k_sec=set(), k_life=[1])

    class _Keyring:
        """Stand-in answering the two questions DataSecure.init_from_keyring asks (the interface is a plain tunnel)."""

        def get_data_secure_group_keys(self):
            return {GroupAddress(GA_K): ds_key}

        def get_data_secure_senders(self):
            return {IndividualAddress(BUS_DEV): 0}

    def bus(cemi: bytes, ch):
        if not cemi or cemi[0] != W.L_DATA_REQ:
            return
        c = W.parse_cemi_ldata(cemi)
        n = R.record("gw_accept", ch.cid, cemi.hex())
        if c is not None and c["group"] and c["dst"] == GA_K:
            obs["k_out"].append(cemi)
        if c is not None and c["group"]:
            tp = c["tpdu"]
            if c["dst"] == GA_U and len(tp) >= 4:
                obs["accepted"].append((int.from_bytes(tp[2:4], "big"), n, ch.cid))
            is_read = len(tp) == 2 and tp[0] & 0x03 == 0 and tp[1] & 0xC0 == 0x00
            if is_read and c["dst"] in SW_STATE:
                i = SW_STATE.index(c["dst"])
                obs["accepted_reads"].append((i, n, loop.time()))
                resp = switches[i]["resp"] if i < len(switches) else None
                if resp is not None:
                    fr = W.cemi_ldata(W.L_DATA_IND, BUS_DEV + i, c["dst"], tpci_apci=W.gv_response_small(1))
                    loop.after(resp, lambda: sender.push(ch.cid, fr, {"kind": "resp", "i": i}), label="bus_resp")
        con = bytes((W.L_DATA_CON,)) + cemi[1:]
        loop.after(cfg["con_lat"], lambda: sender.push(ch.cid, con, {"kind": "con"}), label="bus_con")

    gw = SimGateway(net, script=dict(plan.get("gw") or {}, expire_channels_after=120.0), bus=bus)
    sender = ReliableSender(R, gw)
    obs["sender"] = sender
    if ds and ds.get("early_plain"):
        early_n = [9400]

        def on_connected(cid):
            early_n[0] += 1
            i = early_n[0]
            obs["k_plain"].add(i)
            fr = W.cemi_ldata(W.L_DATA_IND, BUS_DEV, GA_K, tpci_apci=bytes((0x00, 0x80)) + i.to_bytes(2, "big"))
            gw.send_request(cid, fr, lat=0.0)
            R.extra_faults["plain_frame_to_keyed_address_behind_connect_response"] += 1
        gw.on_connected = on_connected

    class Q(asyncio.Queue):
        def put_nowait(self, item):
            if item is not None and isinstance(item.payload, GroupValueRead) and item.direction == TelegramDirection.OUTGOING:
                n = R.record("read_queued", "xknx", str(item.destination_address))
                obs["reads"].append((n, loop.time(), item.destination_address.raw))
            return super().put_nowait(item)

    def tid(tg) -> int:
        try:
            return int.from_bytes(bytes(tg.payload.value.value), "big")
        except Exception:  # pylint: disable=broad-except
            return -1

    def cb(tg):
        raw = tg.destination_address.raw
        if raw == GA_K:
            obs["k_cb"].append((tid(tg), tg.data_secure, tg.direction.name, obs["k_life"][0], R.record("k_cb", "xknx", tid(tg))))
        if tg.direction == TelegramDirection.INCOMING:
            if raw == GA_IN:
                obs["cb_in"].append((tid(tg), R.record("cb_in", "xknx", tid(tg))))
            elif raw == GA_U:
                obs["cb_con_echo"].append(tid(tg))

    async def main():
        cc = ConnectionConfig(connection_type=ConnectionType.TUNNELING if udp else ConnectionType.TUNNELING_TCP,
                              gateway_ip=gw.ip, gateway_port=gw.port, local_ip=net.local_ip, local_port=cfg["local_port"],
                              route_back=cfg["route_back"], auto_reconnect=True, auto_reconnect_wait=cfg["auto_reconnect_wait"],
                              secure_config=SecureConfig(keyring=_Keyring()) if ds else None)
        xknx = XKNX(connection_config=cc, rate_limit=cfg["rate_limit"])
        xknx.telegrams = Q()
        obs["xknx"] = xknx
        xknx.connection_manager.register_connection_state_changed_cb(
            lambda st: obs["states"].append((R.record("state", "client", st.name), loop.time(), st.name)))
        xknx.telegram_queue.register_telegram_received_cb(cb, match_for_outgoing=True)
        devs = []
        for i, s in enumerate(switches):
            d = Switch(xknx, f"sw{i}", group_address=GroupAddress(SW_CMD[i]), group_address_state=GroupAddress(SW_STATE[i]),
                       sync_state=s["sync"])
            xknx.devices.async_add(d)
            devs.append(d)
        obs["dev"] = devs
        if ds:
            from xknx.devices import RawValue
            xknx.telegram_queue.register_data_secure_group_key_issue_cb(
                lambda tg: obs["k_issue"].append((tid(tg), obs["k_life"][0])))
            rk = RawValue(xknx, "rk", payload_length=2, group_address=GroupAddress(GA_K), sync_state=False,
                          device_updated_cb=lambda d: obs["k_dev"].append((d.resolve_state(), obs["k_life"][0])))
            xknx.devices.async_add(rk)
        try:
            await xknx.start()
        except CommunicationError:
            obs["start"] = "failed"
            try:
                async with asyncio.timeout(30):
                    await xknx.stop()
            except Exception:  # pylint: disable=broad-except
                pass
            return
        obs["start"] = "ok"
        t0 = loop.time()
        bg: list[asyncio.Task] = []

        def put_user(i):
            obs["queued"].append((i, R.record("user_put", "user", i)))
            xknx.telegrams.put_nowait(Telegram(destination_address=GroupAddress(GA_U),
                                               payload=GroupValueWrite(DPTArray(tuple(i.to_bytes(2, "big"))))))

        def client_cid():
            # the channel the client really uses (a duplicated ConnectRequest leaves a stale second channel at the gateway):
            # read from the tunnel object - observation only, to aim the bus traffic at the live connection
            itf = getattr(xknx.knxip_interface, "_interface", None)
            cid = getattr(itf, "communication_channel", None)
            return cid if cid in gw.channels else None

        def push_ind(i):
            fr = W.cemi_ldata(W.L_DATA_IND, BUS_DEV, GA_IN, tpci_apci=W.gv_write(i.to_bytes(2, "big")))
            sender.push(client_cid(), fr, {"kind": "ind", "id": i})

        def k_frame(i: int, secured: bool) -> bytes:
            apdu = bytes((0x00, 0x80)) + i.to_bytes(2, "big")
            if not secured:
                obs["k_plain"].add(i)
                return W.cemi_ldata(W.L_DATA_IND, BUS_DEV, GA_K, tpci_apci=apdu)
            from . import dsworld as D
            obs["k_sec"].add(i)
            ds_seq[0] += 1
            return D.secure_frame(ds_key, apdu, ds_seq[0], BUS_DEV, GA_K)

        def do(op):
            k = op["op"]
            if k in ("plain_k", "sec_k"):
                sender.push(client_cid(), k_frame(op["id"], k == "sec_k"), {"kind": k, "id": op["id"]})
                R.extra_faults["plain_frame_to_keyed_address" if k == "plain_k" else "secured_frame_to_keyed_address"] += 1
                return
            if k == "out_k":
                xknx.telegrams.put_nowait(Telegram(destination_address=GroupAddress(GA_K),
                                                   payload=GroupValueWrite(DPTArray(tuple(op["id"].to_bytes(2, "big"))))))
                return
            if k == "tg":
                put_user(op["id"])
            elif k == "ind":
                push_ind(op["id"])
            elif k == "set":
                d = devs[op["i"]]
                bg.append(loop.create_task(d.set_on() if op["v"] else d.set_off()))
            elif k == "ind_state":
                fr = W.cemi_ldata(W.L_DATA_IND, BUS_DEV + op["i"], SW_STATE[op["i"]], tpci_apci=W.gv_write_small(op["v"]))
                sender.push(client_cid(), fr, {"kind": "state", "i": op["i"]})
            elif k == "srv_disconnect":
                if gw.server_disconnect(client_cid()) is not None:
                    R.extra_faults["srv_disconnect"] += 1
            elif k == "stall":
                loop.stall(op["d"])
                R.extra_faults["client_stall"] += 1
                R.record("stall", "client", op["d"])
            elif k == "gw_crash":
                gw.crash()
                R.extra_faults["gw_crash"] += 1
            elif k == "gw_restart":
                gw.restart()
            elif k in ("tcp_reset", "tcp_close"):
                for c_ in net.tcp_conns:
                    if c_.open:
                        c_.server_close(ConnectionResetError(104, "reset") if k == "tcp_reset" else None)
                        R.extra_faults[k] += 1
                        gw.on_close(c_)

        for op in plan["ops"]:
            loop.at(t0 + op["t"], (lambda o=op: do(o)), label="op")
        await asyncio.sleep(cfg["horizon"] + 0.5)
        # ---- faults stop
        gw.restart()
        gw.script = {"expire_channels_after": 120.0}
        R.faults.active = False
        obs["faults_stopped_at"] = loop.time()
        obs["faults_stopped_n"] = R.record("faults_stop", "harness", "")
        # everything still in flight settles: heartbeat (70 s) + 4 x 10 s + reconnect wait + connect
        await asyncio.sleep(70.0 + 4 * 10.0 + cfg["auto_reconnect_wait"] + 15.0)
        if cfg["final_reconnect"]:
            # a last, fault-free reconnection: everything "per (re)connection" must happen exactly once more
            if gw.server_disconnect(client_cid()) is not None:
                obs["final"]["reconnect_n"] = R.record("final_reconnect", "harness", "")
            await asyncio.sleep(cfg["auto_reconnect_wait"] + 12.0)
        obs["final"]["state"] = xknx.connection_manager.state.name
        put_user(9001)
        push_ind(9002)
        await asyncio.sleep(8.0)
        obs["unfinished_before_stop"] = xknx.telegrams._unfinished_tasks   # pylint: disable=protected-access

        async def stopper():
            await xknx.stop()
            obs["stop_ret"] = loop.time()

        if ds and ds["during_stop"]:
            # a plain frame for the keyed address reaches the client while it waits for the answer to its DisconnectRequest
            chs = gw.channels.get(client_cid())
            if ds["stop_lag"] is None:
                gw.script = dict(gw.script, disconnect=[{"k": "drop"}])
            else:
                gw.script = dict(gw.script, disconnect=[{"k": "ok", "lat": ds["stop_lag"]}])

            def late_plain(chs=chs):
                if chs is None:
                    return
                fr = W.tunnelling_request(chs.cid, chs.tx_seq, k_frame(9100, False))
                chs.tx_seq = (chs.tx_seq + 1) & 0xFF
                if chs.via[0] == "udp":
                    gw.sock.sendto(fr, chs.data)
                else:
                    chs.via[1].send_to_client(fr)
                R.extra_faults["plain_frame_to_keyed_address_during_stop"] += 1
            loop.after(ds["at"], late_plain, label="op")
        ids_ = cfg.get("ind_during_stop")
        if ids_ and not ds:
            if ids_["lag"] is None:
                gw.script = dict(gw.script, disconnect=[{"k": "drop"}])
            else:
                gw.script = dict(gw.script, disconnect=[{"k": "ok", "lat": ids_["lag"]}])

            def late_ind(chs=gw.channels.get(client_cid())):
                if chs is None:
                    return
                fr = W.tunnelling_request(chs.cid, chs.tx_seq, W.cemi_ldata(W.L_DATA_IND, BUS_DEV, GA_IN,
                                                                          tpci_apci=W.gv_write((9003).to_bytes(2, "big"))))
                chs.tx_seq = (chs.tx_seq + 1) & 0xFF
                if chs.via[0] == "udp":
                    gw.sock.sendto(fr, chs.data)
                else:
                    chs.via[1].send_to_client(fr)
                R.extra_faults["group_telegram_received_during_stop"] += 1
            loop.after(ids_["at"], late_ind, label="op")
        st = loop.create_task(stopper())
        await asyncio.wait([st], timeout=60.0)
        if st.done() and not st.cancelled() and st.exception() is None:
            # stopped: nothing is left behind that a later join() - or a second stop(), which joins first - would wait for
            jt = loop.create_task(xknx.join())
            await asyncio.wait([jt], timeout=5.0)
            obs["join_after_stop"] = jt.done()
            if not jt.done():
                jt.cancel()
                await asyncio.gather(jt, return_exceptions=True)
        if ds and ds["second_life"] and st.done() and not st.cancelled() and st.exception() is None:
            # the same XKNX object is started again: whatever the first life left behind must not surface now
            gw.script = {"expire_channels_after": 120.0}
            obs["k_life"][0] = 2
            obs["stop_ret_first"] = obs["stop_ret"]
            obs["stop_ret"] = None
            try:
                await xknx.start()
                await asyncio.sleep(1.0)
                sender.push(client_cid(), k_frame(9201, False), {"kind": "plain_k", "id": 9201})
                sender.push(client_cid(), k_frame(9202, True), {"kind": "sec_k", "id": 9202})
                xknx.telegrams.put_nowait(Telegram(destination_address=GroupAddress(GA_K),
                                                   payload=GroupValueWrite(DPTArray((0x23, 0xF3)))))
                await asyncio.sleep(6.0)
                R.extra_faults["same_object_started_again"] += 1
            except CommunicationError:
                obs["second_start"] = "failed"
            st = loop.create_task(stopper())
            await asyncio.wait([st], timeout=60.0)
        obs["unfinished"] = xknx.telegrams._unfinished_tasks   # pylint: disable=protected-access
        if not st.done():
            st.cancel()
        await asyncio.gather(st, *bg, return_exceptions=True)
        obs["state_at_end"] = xknx.connection_manager.state.name
        _ = XknxConnectionState

    R.execute(main())
    R.extra_faults.update(gw.fired)
    obs["gw"] = gw
    return R, obs


# --------------------------------------------------------------------------------------------------------- reference
def reference_passed_up(R, obs) -> list[tuple[str, int, int]]:
    """Frames the tunnel must hand to the cEMI handler: the C23 reference counter stepped over the TunnellingRequests as
    delivered to the client's socket (UDP; the epoch starts when a ConnectRequest goes out); on TCP every request.
    Returns [(kind, id-or-(-1), event number)] with kind in {ind, con, other}."""
    client_ip = R.net.local_ip
    out: list[tuple[str, int, int]] = []
    expected = 0
    tcp_buf: dict[Any, bytes] = {}
    client_cid = None
    awaiting = False
    obs["stale_channel_frames_passed_up"] = 0

    def classify(cemi: bytes, n: int):
        c = W.parse_cemi_ldata(cemi)
        if c is None:
            out.append(("other", -1, n))
            return
        pid = int.from_bytes(c["tpdu"][2:4], "big") if len(c["tpdu"]) >= 4 else -1
        if cemi[0] == W.L_DATA_IND and c["group"] and c["dst"] == GA_IN:
            out.append(("ind", pid, n))
        elif cemi[0] == W.L_DATA_CON:
            out.append(("con", pid, n))
        else:
            out.append(("other", pid, n))

    for (n, t, it, kind, actor, detail) in R.events:
        if kind == "udp_out" and str(actor).startswith(client_ip + ":"):
            sp = W.split(bytes.fromhex(detail))
            if sp and sp[0] == W.CONNECT_REQ:
                expected = 0
                awaiting = True
        elif kind == "udp_in" and f">{client_ip}:" in str(actor):
            sp = W.split(bytes.fromhex(detail))
            if sp and sp[0] == W.CONNECT_RES and len(sp[1]) >= 2 and sp[1][1] == 0 and awaiting:
                client_cid = sp[1][0]      # the first successful answer to the pending ConnectRequest is the one taken
                awaiting = False
            if sp and sp[0] == W.TUNNEL_REQ and len(sp[1]) >= 4:
                seq = sp[1][2]
                if seq == expected:
                    expected = (expected + 1) & 0xFF
                    classify(sp[1][4:], n)
                    if awaiting or (client_cid is not None and sp[1][1] != client_cid):
                        # a delayed frame of the previous channel (also: one arriving while the answer to the next
                        # ConnectRequest is still outstanding) whose counter happens to be the expected one: the tunnel
                        # evaluates the counter only (as C23 states it), so it is passed up - and the frame of the live
                        # channel carrying that counter is then taken for a repetition
                        obs["stale_channel_frames_passed_up"] += 1
        elif kind == "tcp_in":
            buf = tcp_buf.get(actor, b"") + bytes.fromhex(detail)
            while len(buf) >= 6:
                h = W.parse_header(buf)
                if h is None or h[1] < 6 or len(buf) < h[1]:
                    break
                fr, buf = buf[:h[1]], buf[h[1]:]
                sp = W.split(fr)
                if sp and sp[0] == W.TUNNEL_REQ and len(sp[1]) >= 4:
                    classify(sp[1][4:], n)
            tcp_buf[actor] = buf
    return out


def _fired(R) -> int:
    return sum(R.faults.fired.values()) + sum(R.extra_faults.values())


def finish(R, obs, abstract_extra=None):
    cfgm = R.plan["config"]
    abstract = [cfgm["transport"], [o["op"] for o in R.plan["ops"]], [s for (_, _, s) in obs["states"]],
                len(obs["cb_in"]), len(obs["accepted"]), abstract_extra]
    return R.result(nontrivial=_fired(R) > 0, abstract=abstract)


# --------------------------------------------------------------------------------------------------------- judges
def judge_c14(R, obs):
    """Received link frames reach exactly the right consumer, once - across tunnel, cEMI handler and telegram queue."""
    if obs["start"] != "ok":
        return
    ref = reference_passed_up(R, obs)
    want = [pid for (k, pid, n) in ref if k == "ind"]
    got = [pid for (pid, n) in obs["cb_in"]]
    if got != want:
        dup = [p for p in set(got) if got.count(p) > want.count(p)]
        missing = [p for p in want if want.count(p) > got.count(p)]
        sig = "delivered-more-often-than-received" if dup else "received-frame-not-delivered" if missing else "order-differs"
        R.violate("C14.e2e-exactly-once", sig,
                  f"group frames handed up by the tunnel (reference counter over the socket log): {want[:12]}; telegrams seen "
                  f"by callbacks: {got[:12]}")
    if obs["cb_con_echo"]:
        R.violate("C14.e2e-confirmation-not-telegram", "confirmation-became-telegram",
                  f"incoming telegrams on the address only the user sends to: {obs['cb_con_echo'][:6]}")
    R.probes["e2e_inds_delivered"] += len(got)
    R.probes["e2e_cons_received"] += sum(1 for (k, _, _) in ref if k == "con")
    # bounded progress: the indication pushed after the faults stopped arrives
    R.probes["e2e_stale_channel_frame_passed_up"] += obs["stale_channel_frames_passed_up"]
    if obs["final"].get("state") == "CONNECTED" and 9002 not in got and not obs["stale_channel_frames_passed_up"]:
        m = next((x for x in obs["sender"].log if x.get("id") == 9002), None)
        if m is not None and m.get("sent"):
            R.violate("C14.e2e-exactly-once", "received-frame-not-delivered:after-faults-stopped",
                      "the indication sent on the established connection after all faults had stopped never reached callbacks")
    R.check_escapes("C14.no-escape")


def judge_c33(R, obs):
    """Outgoing telegrams reach the gateway in queue order, none twice; the queue drains and stop() returns."""
    if obs["start"] != "ok":
        return
    queued = [i for (i, n) in obs["queued"]]
    acc = [i for (i, n, cid) in obs["accepted"]]
    # UDPTunnel.send_cemi sends a frame once more after it re-established the tunnel (by design): the same telegram may
    # reach the gateway again on a *new* channel, directly after its first arrival - never on the same channel (that
    # would be a new counter for an old frame) and never after a later telegram
    dup = []
    collapsed: list[int] = []
    prev = None
    for (i, n, cid) in obs["accepted"]:
        if prev is not None and prev[0] == i:
            if prev[1] == cid:
                dup.append(i)
            else:
                R.probes["e2e_telegram_resent_after_reconnect"] += 1
            prev = (i, cid)
            continue
        collapsed.append(i)
        prev = (i, cid)
    dup += [i for i in set(collapsed) if collapsed.count(i) > 1]
    if dup:
        R.violate("C33.e2e-order", "telegram-accepted-twice-by-gateway", f"{dup[:5]} (accepted {acc[:12]})")
    pos = {i: k for k, i in enumerate(queued)}
    seq = [pos[i] for i in collapsed if i in pos]
    if any(b <= a for a, b in zip(seq, seq[1:])) and not dup:
        R.violate("C33.e2e-order", "gateway-order!=queue-order", f"queued {queued[:12]}, accepted by the gateway {acc[:12]}")
    unknown = [i for i in acc if i not in pos]
    if unknown:
        R.violate("C33.e2e-order", "gateway-accepted-telegram-never-queued", f"{unknown[:5]}")
    if obs["final"].get("state") == "CONNECTED" and 9001 not in acc:
        R.violate("C33.e2e-liveness", "telegram-after-faults-stopped-not-sent",
                  "connected, all faults stopped long ago, but the telegram queued then never reached the gateway")
    if obs["unfinished_before_stop"] not in (0, None) and obs["final"].get("state") == "CONNECTED":
        R.violate("C33.e2e-liveness", "queue-not-drained", f"{obs['unfinished_before_stop']} telegrams not marked done 8 s after the last one was queued")
    if obs.get("join_after_stop") is False:
        R.violate("C33.e2e-liveness", "join-blocks-after-stop",
                  "XKNX.stop() returned, but a join() afterwards does not: a telegram was left in the queue unaccounted "
                  f"(unfinished={obs['unfinished']})")
    if obs["stop_ret"] is None:
        R.violate("C33.e2e-liveness", "stop-did-not-return", f"stop() did not return within 60 s (unfinished={obs['unfinished']}, "
                  f"state before {obs['final'].get('state')})")
    R.probes["e2e_telegrams_accepted"] += len(acc)
    R.probes["e2e_telegrams_lost_to_failures"] += len([i for i in queued if i not in acc])
    R.check_escapes("C33.no-escape")


def judge_c35(R, obs):
    """Reads only while connected, once per (re)connection and tracker (intervals are 60 min, runs are shorter)."""
    if obs["start"] != "ok":
        return
    switches = R.plan.get("switches") or []
    ev: list[tuple[int, str, Any, float]] = [(n, "state", s, t) for (n, t, s) in obs["states"]]
    ev += [(n, "read", ga, t) for (n, t, ga) in obs["reads"]]
    ev.sort()
    connected = False
    lost_at = None
    per_epoch: dict[int, int] = {}
    epoch_n = 0
    last_epoch_start_n = None
    for (n, k, p, t) in ev:
        if k == "state":
            now = p == "CONNECTED"
            if now and not connected:
                per_epoch = {}
                epoch_n += 1
                last_epoch_start_n = n
            if connected and not now:
                lost_at = t
            connected = now
        else:
            if p not in SW_STATE:
                continue
            i = SW_STATE.index(p)
            if not connected and lost_at is not None and t == lost_at:
                # a read created (shielded) in the loop iteration before the connection was reported lost puts its telegram
                # on the queue one iteration later, at the same virtual instant: issued while connected - unjudged
                R.probes["e2e_read_in_the_instant_of_the_disconnect"] += 1
                continue
            if not connected:
                R.violate("C35.not-while-disconnected", "e2e:read-while-not-connected",
                          f"GroupValueRead for switch {i} queued while the connection state was not CONNECTED")
            if i < len(switches) and switches[i]["sync"] is False:
                R.violate("C35.only-tracked", "e2e:read-for-untracked-value", f"switch {i} has sync_state=False")
            per_epoch[i] = per_epoch.get(i, 0) + 1
            if per_epoch[i] > 1:
                R.violate("C35.init-once", "e2e:second-read-in-one-connection-epoch",
                          f"switch {i} ({switches[i]['sync'] if i < len(switches) else '?'}) read {per_epoch[i]} times in "
                          f"connection epoch {epoch_n} (intervals are 60 minutes)")
    R.probes["e2e_reads"] += len(obs["reads"])
    R.probes["e2e_epochs"] += epoch_n
    # the last epoch began after every fault had stopped: exactly one read per tracked value, and it reaches the gateway
    fr = obs["final"].get("reconnect_n")
    if fr is not None and last_epoch_start_n is not None and last_epoch_start_n > fr and obs["final"].get("state") == "CONNECTED":
        for i, s in enumerate(switches):
            if s["sync"] is False:
                continue
            expire = s["sync"] is True or str(s["sync"]).startswith("expire")
            if per_epoch.get(i, 0) == 0 and expire:
                # a state telegram arriving before the initial read was issued makes that read unnecessary (expire policy)
                R.probes["e2e_expire_tracker_without_initial_read"] += 1
                continue
            if per_epoch.get(i, 0) != 1:
                R.violate("C35.once-per-connection", f"e2e:reads-in-fault-free-epoch={per_epoch.get(i, 0)}",
                          f"switch {i} ({s['sync']}) was read {per_epoch.get(i, 0)} times after the final fault-free reconnection")
            elif not any(j == i and n > last_epoch_start_n for (j, n, t) in obs["accepted_reads"]):
                R.violate("C35.once-per-connection", "e2e:read-did-not-reach-the-bus",
                          f"the read of switch {i} after the final fault-free reconnection never arrived at the gateway")
    R.check_escapes("C35.no-escape")


def judge_c18(R, obs):
    """C18 across the seams: the key material lives in CEMIHandler, but it is set up and torn down by KNXIPInterface.start/stop;
    frames keep arriving through a real tunnel while the object stops and starts."""
    from . import crypto as C
    from . import dsworld as D
    if obs["start"] != "ok":
        return
    plain, sec = obs["k_plain"], obs["k_sec"]
    for (i, flag, direction, life, n) in obs["k_cb"]:
        if direction != "INCOMING":
            continue
        if i in plain:
            R.violate("C18.plain-to-keyed", "e2e:plain-frame-delivered-on-secured-address" + (":after-restart" if life == 2 else ""),
                      f"plain group write {i} to the keyed address reached telegram callbacks (life {life})")
        elif i in sec and flag is not True:
            R.violate("C15.marked-secure", "e2e:delivered-without-data_secure-flag", f"telegram {i}")
    for (v, life) in obs["k_dev"]:
        try:
            i = int.from_bytes(bytes(v.value), "big") if hasattr(v, "value") else int(v)
        except Exception:  # pylint: disable=broad-except
            continue
        if i in plain:
            R.violate("C18.plain-to-keyed", "e2e:plain-frame-processed-by-device" + (":after-restart" if life == 2 else ""),
                      f"plain group write {i} to the keyed address updated the device (life {life})")
    ids_cb = [i for (i, flag, d, life, n) in obs["k_cb"] if d == "INCOMING"]
    for i in sec:
        if ids_cb.count(i) > 1:
            R.violate("C18.secured-accepted", "e2e:secured-frame-delivered-twice", f"telegram {i}")
    ds_key = __import__("random").Random(R.plan["seed"] ^ 0xD5).randbytes(16)
    last = -1
    for raw in obs["k_out"]:
        ps = D.parse_secure(raw)
        if ps is None:
            R.violate("C18.outgoing-secured", "e2e:plain-frame-sent-to-secured-address", raw.hex())
            continue
        if C.ds_open(ds_key, ps["asdu"], ps["scf"], ps["src"], ps["dst"], True, 0, ps["tpci_octet"]) is None:
            R.violate("C18.outgoing-secured", "e2e:outgoing-secured-frame-does-not-verify", raw.hex())
        last = max(last, ps["seq"])
    R.probes["e2e_plain_frames_to_keyed_address"] += len(plain)
    R.probes["e2e_key_issue_reports"] += len(obs["k_issue"])
    R.probes["e2e_secured_frames_delivered"] += sum(1 for i in set(ids_cb) if i in sec)
    R.probes["e2e_outgoing_secured_frames"] += len(obs["k_out"])
    R.check_escapes("C18.no-raise")
