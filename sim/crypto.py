"""Independent KNX IP Secure / Data Secure cryptography for peer models and oracles.

Only primitive used from a library: one AES-128 *block* encryption (ECB on 16
octets), SHA-256/PBKDF2 from hashlib and X25519 from `cryptography`.  CBC-MAC,
CTR, the B0/counter-0 layouts and the handshake MACs are written here from the
KNX specifications, and pinned to real-world vectors by `anchor_selftest()`
(AN159 example values and a frame captured from an ETS installation, both taken
from the repository's test-suite data - a mismatch is a harness error, never a
verdict about xknx).
"""

from __future__ import annotations

import hashlib
import struct

from cryptography.hazmat.primitives import serialization
from cryptography.hazmat.primitives.asymmetric.x25519 import X25519PrivateKey, X25519PublicKey
from cryptography.hazmat.primitives.ciphers import Cipher, algorithms, modes


def aes_block(key: bytes, block: bytes) -> bytes:
    assert len(block) == 16 and len(key) == 16
    enc = Cipher(algorithms.AES(key), modes.ECB()).encryptor()
    return enc.update(block) + enc.finalize()


def xor(a: bytes, b: bytes) -> bytes:
    return bytes(x ^ y for x, y in zip(a, b))


def cbc_mac(key: bytes, data: bytes) -> bytes:
    """CBC-MAC with zero IV over zero-padded data; returns the last block."""
    if len(data) % 16:
        data = data + bytes(16 - len(data) % 16)
    y = bytes(16)
    for i in range(0, len(data), 16):
        y = aes_block(key, xor(y, data[i:i + 16]))
    return y


def ctr_stream(key: bytes, ctr0: bytes, n: int) -> bytes:
    out = b""
    c = int.from_bytes(ctr0, "big")
    while len(out) < n:
        out += aes_block(key, (c % (1 << 128)).to_bytes(16, "big"))
        c += 1
    return out[:n]


# --------------------------------------------------------------------------- IP Secure
def ccm_mac_ip(key: bytes, b0: bytes, additional: bytes, payload: bytes = b"") -> bytes:
    return cbc_mac(key, b0 + struct.pack(">H", len(additional)) + additional + payload)


def wrap(key: bytes, session_id: int, seq: bytes, serial: bytes, tag: bytes, plain: bytes) -> bytes:
    """Return a complete SECURE_WRAPPER frame."""
    total = 38 + len(plain)
    hdr = bytes((0x06, 0x10, 0x09, 0x50)) + struct.pack(">H", total)
    sid = struct.pack(">H", session_id)
    b0 = seq + serial + tag + struct.pack(">H", len(plain))
    mac = ccm_mac_ip(key, b0, hdr + sid, plain)
    ctr0 = seq + serial + tag + b"\xff\x00"
    ks = ctr_stream(key, ctr0, 16 + len(plain))
    return hdr + sid + seq + serial + tag + xor(plain, ks[16:]) + xor(mac, ks[:16])


def unwrap(key: bytes, frame: bytes):
    """Return dict(session_id, seq, serial, tag, plain) or None if the MAC does not verify."""
    if len(frame) < 38 or frame[:4] != bytes((0x06, 0x10, 0x09, 0x50)):
        return None
    total = struct.unpack(">H", frame[4:6])[0]
    if total != len(frame):
        return None
    sid = frame[6:8]
    seq, serial, tag = frame[8:14], frame[14:20], frame[20:22]
    enc, emac = frame[22:-16], frame[-16:]
    ctr0 = seq + serial + tag + b"\xff\x00"
    ks = ctr_stream(key, ctr0, 16 + len(enc))
    plain = xor(enc, ks[16:])
    mac = xor(emac, ks[:16])
    b0 = seq + serial + tag + struct.pack(">H", len(plain))
    if ccm_mac_ip(key, b0, frame[:6] + sid, plain) != mac:
        return None
    return {"session_id": struct.unpack(">H", sid)[0], "seq": int.from_bytes(seq, "big"), "serial": serial,
            "tag": tag, "plain": plain}


HANDSHAKE_CTR0 = bytes(14) + b"\xff\x00"


def pbkdf2(password: str, salt: bytes) -> bytes:
    return hashlib.pbkdf2_hmac("sha256", password.encode("latin-1"), salt, 65536, 16)


def user_key(password: str) -> bytes:
    return pbkdf2(password, b"user-password.1.secure.ip.knx.org")


def device_auth_key(password: str) -> bytes:
    return pbkdf2(password, b"device-authentication-code.1.secure.ip.knx.org")


def session_response_mac(dev_auth: bytes, session_id: int, client_pub: bytes, server_pub: bytes) -> bytes:
    a = bytes.fromhex("061009520038") + struct.pack(">H", session_id) + xor(client_pub, server_pub)
    mac = ccm_mac_ip(dev_auth, bytes(16), a)
    return xor(mac, aes_block(dev_auth, HANDSHAKE_CTR0))


def session_authenticate_mac(user: bytes, user_id: int, client_pub: bytes, server_pub: bytes) -> bytes:
    a = bytes.fromhex("061009530018") + bytes((0, user_id)) + xor(client_pub, server_pub)
    mac = ccm_mac_ip(user, bytes(16), a)
    return xor(mac, aes_block(user, HANDSHAKE_CTR0))


def session_key(private: X25519PrivateKey, peer_pub: bytes) -> bytes:
    shared = private.exchange(X25519PublicKey.from_public_bytes(peer_pub))
    return hashlib.sha256(shared).digest()[:16]


def keypair_from(raw32: bytes):
    priv = X25519PrivateKey.from_private_bytes(raw32)
    pub = priv.public_key().public_bytes(serialization.Encoding.Raw, serialization.PublicFormat.Raw)
    return priv, pub


def timer_notify(key: bytes, timer_value: int, serial: bytes, tag: bytes) -> bytes:
    """Return a complete TIMER_NOTIFY frame."""
    hdr = bytes.fromhex("061009550024")
    tv = timer_value.to_bytes(6, "big")
    b0 = tv + serial + tag + b"\x00\x00"
    mac = ccm_mac_ip(key, b0, hdr)
    emac = xor(mac, aes_block(key, tv + serial + tag + b"\xff\x00"))
    return hdr + tv + serial + tag + emac


def timer_notify_verify(key: bytes, frame: bytes):
    if len(frame) != 0x24 or frame[:6] != bytes.fromhex("061009550024"):
        return None
    tv, serial, tag, emac = frame[6:12], frame[12:18], frame[18:20], frame[20:36]
    mac = ccm_mac_ip(key, tv + serial + tag + b"\x00\x00", frame[:6])
    if xor(mac, aes_block(key, tv + serial + tag + b"\xff\x00")) != emac:
        return None
    return {"timer": int.from_bytes(tv, "big"), "serial": serial, "tag": tag}


# --------------------------------------------------------------------------- Data Secure
def ds_b0(seq6: bytes, src: int, dst: int, group: bool, ext_format: int, tpci_octet: int, payload_len: int) -> bytes:
    at = (0x80 if group else 0x00) | (ext_format & 0x0F)
    return seq6 + struct.pack(">HH", src, dst) + bytes((0, at, (tpci_octet & 0xFC) | 0x03, 0xF1, 0, payload_len))


def ds_secure(key: bytes, apdu: bytes, scf: int, seq: int, src: int, dst: int, group: bool = True,
              ext_format: int = 0, tpci_octet: int = 0) -> bytes:
    """Return the secured ASDU: seq(6) + secured APDU + MAC(4) (to be prefixed with APCI 03F1 and SCF)."""
    seq6 = seq.to_bytes(6, "big")
    algo = (scf >> 4) & 7
    if algo == 1:   # authenticated encryption
        b0 = ds_b0(seq6, src, dst, group, ext_format, tpci_octet, len(apdu))
        mac = cbc_mac(key, b0 + struct.pack(">H", 1) + bytes((scf,)) + apdu)[:4]
        ctr0 = seq6 + struct.pack(">HH", src, dst) + b"\x00\x00\x00\x00\x01\x00"
        ks = ctr_stream(key, ctr0, 4 + len(apdu))   # MAC(4) || APDU is one contiguous stream
        return seq6 + xor(apdu, ks[4:]) + xor(mac, ks[:4])
    if algo == 0:   # authentication only
        b0 = ds_b0(seq6, src, dst, group, ext_format, tpci_octet, 0)
        a = bytes((scf,)) + apdu
        mac = cbc_mac(key, b0 + struct.pack(">H", len(a)) + a)[:4]
        return seq6 + apdu + mac
    raise ValueError("unknown algorithm")


def ds_open(key: bytes, asdu: bytes, scf: int, src: int, dst: int, group: bool = True, ext_format: int = 0,
            tpci_octet: int = 0):
    """Verify/decrypt a secured ASDU; return the plain APDU or None."""
    if len(asdu) < 10:
        return None
    seq6, body, emac = asdu[:6], asdu[6:-4], asdu[-4:]
    algo = (scf >> 4) & 7
    if algo == 1:
        ctr0 = seq6 + struct.pack(">HH", src, dst) + b"\x00\x00\x00\x00\x01\x00"
        ks = ctr_stream(key, ctr0, 4 + len(body))
        apdu = xor(body, ks[4:])
        mac = xor(emac, ks[:4])
        b0 = ds_b0(seq6, src, dst, group, ext_format, tpci_octet, len(apdu))
        if cbc_mac(key, b0 + struct.pack(">H", 1) + bytes((scf,)) + apdu)[:4] != mac:
            return None
        return apdu
    if algo == 0:
        b0 = ds_b0(seq6, src, dst, group, ext_format, tpci_octet, 0)
        a = bytes((scf,)) + body
        if cbc_mac(key, b0 + struct.pack(">H", len(a)) + a)[:4] != emac:
            return None
        return body
    return None


# --------------------------------------------------------------------------- anchors
def anchor_selftest() -> str | None:
    """Compare against fixed real-world vectors. Returns an error text or None."""
    # --- PBKDF2 derivations (AN159 v06): user password "secret", device authentication "trustme"
    if user_key("secret").hex() != "03fcedb66660251ec81a1a716901696a":
        return "PBKDF2 user password derivation differs from the AN159 example"
    dev = device_auth_key("trustme")
    if dev.hex() != "e158e4012047bd6cc41aafbc5c04c1fc":
        return "PBKDF2 device authentication derivation differs from the AN159 example"
    # --- AN159 v06 SessionResponse MAC (CBC part)
    a = bytes.fromhex("06100952003800 01b752be246459260f6b0c4801fbd5a67599f83b4057b3ef1e79e469ac17234e15".replace(" ", ""))
    if ccm_mac_ip(dev, bytes(16), a).hex() != "da3dc6af79896aa6ee7573d69950c283":
        return "SessionResponse CBC-MAC differs from the AN159 example"
    # --- AN159 v06 routing SecureWrapper
    key = bytes.fromhex("000102030405060708090a0b0c0d0e0f")
    plain = bytes.fromhex("0610053000112900bcd011590ade010081")
    fr = wrap(key, 0, bytes.fromhex("c0c1c2c3c4c5"), bytes.fromhex("00fa12345678"), bytes.fromhex("affe"), plain)
    want = bytes.fromhex("061009500037" "0000" "c0c1c2c3c4c5" "00fa12345678" "affe"
                         "b7ee7e8a1c2f7bbabec775fd6e10d0bc4b" "7212a03aaae49da85689774c1d2b4da4")
    if fr != want:
        return "SecureWrapper differs from the AN159 routing example"
    u = unwrap(key, want)
    if not u or u["plain"] != plain:
        return "SecureWrapper of the AN159 routing example does not unwrap"
    # --- Data Secure: frame captured from an ETS installation (test/secure_tests/data_secure_test.py,
    #     key of 0/4/0 from SecureTest.knxkeys): src 4.0.9, dst 0/4/0, A+C, seq 155806854986
    k = bytes.fromhex("dfdf23a59fbb40404091d1c162087e8b")
    asdu = bytes.fromhex("002446cfef4a" "c085e7092a" "b062b44d")
    if ds_open(k, asdu, 0x10, 0x4009, 0x0400, True, 0, 0x00) != bytes.fromhex("0040742929"):
        return "Data Secure reference does not open the ETS frame"
    if ds_secure(k, bytes.fromhex("0040742929"), 0x10, 155806854986, 0x4009, 0x0400, True, 0, 0x00) != asdu:
        return "Data Secure reference does not reproduce the ETS frame"
    return None
