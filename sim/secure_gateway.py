"""SecureGateway: SimGateway behind an independently implemented KNX IP Secure session layer (TCP)."""

from __future__ import annotations

import struct
from typing import Any

from . import crypto as C
from . import wire as W
from .gateway import SimGateway

ST_AUTH_SUCCESS, ST_AUTH_FAILED, ST_UNAUTH, ST_TIMEOUT, ST_KEEPALIVE, ST_CLOSE = 0, 1, 2, 3, 4, 5


class Session:
    def __init__(self, sid, conn):
        self.sid = sid
        self.conn = conn
        self.key: bytes | None = None
        self.client_pub = b""
        self.server_pub = b""
        self.authenticated = False
        self.rx_last = -1            # last sequence number seen from the client
        self.tx_seq = 0
        self.client_frames: list[dict[str, Any]] = []   # every frame the client sent on this connection, judged
        self.sent_wrappers: list[bytes] = []             # genuine wrappers sent to the client (for replays)
        self.closed = False
        self.session_response_raw: bytes | None = None
        self.replayed = False        # this connection is served by the cross-session replay attacker, not the gateway


class SecureGateway(SimGateway):
    SERIAL = bytes.fromhex("00fa12345678")

    def __init__(self, net, rng, *, user_id=2, user_password="user", device_password="dev", **kw):
        super().__init__(net, **kw)
        self.rng = rng
        self.user_id = user_id
        self.user_key = C.user_key(user_password)
        self.dev_key = C.device_auth_key(device_password)
        self.sessions: dict[int, Session] = {}     # by tcp conn id
        self.next_sid = 1
        self.lowest_free_sid = False
        self.session_script: list[dict[str, Any]] = []     # scripted behaviour per SessionRequest
        self.bad_dev_mac = False                   # scripted: SessionResponse with a wrong device-authentication MAC
        self.auth_result = ST_AUTH_SUCCESS
        self.auth_results: list[int] = []          # scripted status codes of the next authentications
        self.violations: list[tuple[str, str, str]] = []   # (clause, sig, detail) observed on the wire
        self.auth_mac_checked = 0
        self.wrappers_checked = 0
        self.replay: list[bytes] | None = None     # recorded server-to-client frames a replay attacker serves

    # -- transport
    def on_accept(self, conn):
        super().on_accept(conn)
        self.sessions[conn.cid] = Session(0, conn)

    def on_close(self, conn):
        s = self.sessions.get(conn.cid)
        if s:
            s.closed = True
        super().on_close(conn)

    def on_data(self, conn, data: bytes):
        if self.down:
            return
        buf = self.tcp_buf.get(conn.cid, b"") + data
        while len(buf) >= 6:
            h = W.parse_header(buf)
            if h is None or h[1] < 6:
                buf = b""
                break
            if len(buf) < h[1]:
                break
            fr, buf = buf[:h[1]], buf[h[1]:]
            self._secure_rx(conn, fr)
        self.tcp_buf[conn.cid] = buf

    def _secure_rx(self, conn, fr: bytes):
        s = self.sessions[conn.cid]
        svc = struct.unpack(">H", fr[2:4])[0]
        if self.replay is not None and (s.replayed or not s.client_frames):
            # attacker without any key: answers a new connection with the recorded server-to-client bytes of an
            # earlier session (SessionResponse first, the recorded wrappers once the client goes on with the handshake)
            s.replayed = True
            s.client_frames.append({"svc": svc, "raw": fr, "t": self.loop.time()})
            if svc == W.SESSION_REQ:
                conn.send_to_client(self.replay[0])
            elif not getattr(s, "replay_dumped", False):
                s.replay_dumped = True
                for w in self.replay[1:]:
                    conn.send_to_client(w)
            return
        first = not s.client_frames
        rec = {"svc": svc, "raw": fr, "t": self.loop.time()}
        s.client_frames.append(rec)
        if svc == W.SESSION_REQ:
            if not first:
                self.violations.append(("C29.never-plain", "second-plain-session-request", "SESSION_REQUEST not first frame"))
            b = self.session_script.pop(0) if self.session_script else None
            if b and b.get("k") == "close":
                # the connection dies while the client waits for the SessionResponse
                self.fired["session:close"] += 1

                def close(conn=conn):
                    conn.server_close(None)
                    self.on_close(conn)
                self.loop.after(b.get("d", 0.3), close, label="gw_close")
                return
            body = fr[6:]
            if len(body) != 8 + 32:
                return
            s.client_pub = body[8:40]
            priv, pub = C.keypair_from(self.rng.randbytes(32))
            s.server_pub = pub
            if self.lowest_free_sid:
                # as real devices do: the lowest session id no open session holds (a closed session's id is handed out again)
                used = {x.sid for x in self.sessions.values() if x is not s and x.sid and not getattr(x, "closed", False)
                        and x.conn.open}
                s.sid = next(i for i in range(1, 0xFFFF) if i not in used)
            else:
                s.sid = self.next_sid
                self.next_sid += 1
            s.key = C.session_key(priv, s.client_pub)
            mac = C.session_response_mac(self.dev_key, s.sid, s.client_pub, s.server_pub)
            if self.bad_dev_mac:
                mac = bytes((mac[0] ^ 1,)) + mac[1:]
            s.session_response_raw = W.frame(W.SESSION_RES, struct.pack(">H", s.sid) + pub + mac)
            conn.send_to_client(s.session_response_raw)
            return
        if svc != W.SECURE_WRAPPER:
            self.violations.append(("C29.never-plain", f"plain-frame-sent:{W.SVC_NAMES.get(svc, hex(svc))}",
                                    f"client sent plain {fr.hex()}"))
            return
        if s.key is None:
            self.violations.append(("C29.never-plain", "wrapper-before-session", "wrapper without session"))
            return
        u = C.unwrap(s.key, fr)
        self.wrappers_checked += 1
        if u is None:
            self.violations.append(("C28.wrapper-conformance", "client-wrapper-does-not-verify",
                                    f"independent implementation rejects {fr.hex()}"))
            return
        rec["inner"] = u["plain"]
        rec["seq"] = u["seq"]
        if u["session_id"] != s.sid:
            self.violations.append(("C28.wrapper-conformance", "client-wrapper-wrong-session-id", f"{u['session_id']} != {s.sid}"))
        if u["seq"] <= s.rx_last:
            self.violations.append(("C29.sequence-increasing", "client-sequence-not-increasing",
                                    f"sequence {u['seq']} after {s.rx_last}"))
        s.rx_last = max(s.rx_last, u["seq"])
        # re-encrypting the recovered plaintext with the same sequence info, serial and tag reproduces the wire bytes
        again = C.wrap(s.key, u["session_id"], fr[8:14], u["serial"], u["tag"], u["plain"])
        if again != fr:
            self.violations.append(("C28.wrapper-conformance", "re-wrap-differs", f"{again.hex()} != {fr.hex()}"))
        inner = u["plain"]
        isp = W.split(inner)
        if isp is None:
            return
        isvc, ibody = isp
        if isvc == W.SESSION_AUTH:
            if len(ibody) >= 18:
                want = C.session_authenticate_mac(self.user_key, ibody[1], s.client_pub, s.server_pub)
                self.auth_mac_checked += 1
                ok = ibody[1] == self.user_id and ibody[2:18] == want
                if ibody[1] == self.user_id and ibody[2:18] != want:
                    self.violations.append(("C28.handshake-mac", "session-authenticate-mac-differs",
                                            f"{ibody[2:18].hex()} != {want.hex()}"))
                st = self.auth_result if ok else ST_AUTH_FAILED
                if ok and self.auth_results:
                    st = self.auth_results.pop(0)       # scripted per authentication (then auth_result)
                    if st is None:
                        self.fired["session:authenticate_unanswered"] += 1
                        return                          # the gateway does not answer this authentication at all
                s.authenticated = st == ST_AUTH_SUCCESS
                self.send_wrapped(s, W.frame(W.SESSION_STATUS, bytes((st, 0))))
            return
        if isvc == W.SESSION_STATUS:
            rec["status"] = ibody[0] if ibody else None
            return
        if not s.authenticated:
            return
        self._handle(inner, ("tcp", conn))

    # replies of the plain gateway go through here
    def _reply(self, via, data: bytes, lat: float | None = None, to=None):
        if via[0] == "tcp":
            s = self.sessions.get(via[1].cid)
            if s is not None and s.key is not None:
                self.send_wrapped(s, data, lat=lat)
                return
        super()._reply(via, data, lat=lat, to=to)

    def send_request(self, cid, cemi, seq=None, lat=None, advance=True, mgmt=None):
        ch = self.channels.get(cid)
        if ch is None or ch.via[0] != "tcp":
            return super().send_request(cid, cemi, seq, lat, advance, mgmt)
        if seq is None:
            seq = ch.tx_seq
            if advance:
                ch.tx_seq = (ch.tx_seq + 1) & 0xFF
        is_mgmt = ch.mgmt if mgmt is None else mgmt
        fr = (W.devcfg_request if is_mgmt else W.tunnelling_request)(cid, seq, cemi)
        self._reply(ch.via, fr, lat=lat)
        return seq

    def server_disconnect(self, cid=None, wire_cid=None, forget=True):
        if cid is None:
            cid = self.last_cid
        ch = self.channels.get(cid)
        if ch is None:
            return None
        fr = W.disconnect_request(cid if wire_cid is None else wire_cid, W.hpai(self.ip, self.port, tcp=True))
        self._reply(ch.via, fr)
        if forget and wire_cid is None:
            del self.channels[cid]
        return cid

    # -- building frames for the client
    def make_wrapper(self, s: Session, plain: bytes, *, seq: int | None = None, sid: int | None = None,
                     key: bytes | None = None, tag: bytes = b"\x00\x00") -> bytes:
        if seq is None:
            seq = s.tx_seq
            s.tx_seq += 1
        return C.wrap(key or s.key, s.sid if sid is None else sid, seq.to_bytes(6, "big"), self.SERIAL, tag, plain)

    def send_wrapped(self, s: Session, plain: bytes, lat: float | None = None):
        fr = self.make_wrapper(s, plain)
        s.sent_wrappers.append(fr)
        s.conn.send_to_client(fr, lat=lat)
        return fr

    def current_session(self) -> Session | None:
        live = [s for s in self.sessions.values() if not s.closed and s.key is not None]
        return live[-1] if live else None
