"""Seams: every source of nondeterminism xknx reaches outside asyncio.

All of them are external monkeypatches of module attributes; nothing in /repo is
changed.  `install(env)` is idempotent and re-pointable: the patched objects
delegate to the *current* `SimEnv`, so a fresh env per run costs nothing.
"""

from __future__ import annotations

import random as _random
from typing import Any

_CURRENT: "SimEnv | None" = None
_INSTALLED = False


class SimEnv:
    """Per-run sources: loop (virtual time), wall-clock skew, PRNG."""

    def __init__(self, loop, seed: int, epoch_base: float = 1_700_000_000.0) -> None:
        self.loop = loop
        self.rng = _random.Random(seed ^ 0x5EED)
        self.epoch_base = epoch_base
        self.skew = 0.0
        self.ecdh_counter = 0
        self.adapters = [("eth0", "10.0.0.1")]
        self.wall_override = None  # callable returning wall time, for pure clock models

    def wall(self) -> float:
        if self.wall_override is not None:
            return self.wall_override()
        return self.epoch_base + (self.loop.time() - self.loop._start) + self.skew


class _TimeProxy:
    """Stands in for the `time` module inside patched xknx modules."""

    def time(self) -> float:
        return _CURRENT.wall()

    def monotonic(self) -> float:
        return _CURRENT.loop.time()

    def __getattr__(self, name):
        import time as _t
        return getattr(_t, name)


class _RandomProxy:
    def random(self):
        return _CURRENT.rng.random()

    def uniform(self, a, b):
        return _CURRENT.rng.uniform(a, b)

    def randbytes(self, n):
        return _CURRENT.rng.randbytes(n)

    def randrange(self, *a):
        return _CURRENT.rng.randrange(*a)

    def randint(self, a, b):
        return _CURRENT.rng.randint(a, b)

    def choice(self, seq):
        return _CURRENT.rng.choice(seq)


class OrderedSet:
    """Insertion-ordered stand-in for `set` where elements hash by id()."""

    def __init__(self, it=()):
        self._d = dict.fromkeys(it)

    def add(self, x):
        self._d[x] = None

    def remove(self, x):
        del self._d[x]

    def discard(self, x):
        self._d.pop(x, None)

    def __contains__(self, x):
        return x in self._d

    def __iter__(self):
        return iter(list(self._d))

    def __len__(self):
        return len(self._d)

    def __bool__(self):
        return bool(self._d)

    def copy(self):
        return OrderedSet(self._d)

    def clear(self):
        self._d.clear()

    def __repr__(self):
        return f"OrderedSet({list(self._d)!r})"


class FakeMcastSock:
    """Inert token returned instead of a real multicast socket."""

    def __init__(self, own_ip: str, remote_addr: tuple[str, int]) -> None:
        self.own_ip = own_ip
        self.group = remote_addr[0]
        self.port = remote_addr[1]

    def close(self):
        pass


class _FakeIP:
    def __init__(self, ip):
        self.ip = ip
        self.is_IPv4 = True
        self.is_IPv6 = False
        self.network_prefix = 24
        self.nice_name = "sim"


class _FakeAdapter:
    def __init__(self, name, ip):
        self.name = name
        self.nice_name = name
        self.ips = [_FakeIP(ip)]
        self.index = 1


def _seeded_keypair():
    from cryptography.hazmat.primitives import serialization
    from cryptography.hazmat.primitives.asymmetric.x25519 import X25519PrivateKey
    env = _CURRENT
    env.ecdh_counter += 1
    raw = env.rng.randbytes(32)
    priv = X25519PrivateKey.from_private_bytes(raw)
    pub = priv.public_key().public_bytes(
        serialization.Encoding.Raw, serialization.PublicFormat.Raw)
    return priv, pub


def install(env: SimEnv) -> None:
    global _CURRENT, _INSTALLED
    _CURRENT = env
    if _INSTALLED:
        return
    _INSTALLED = True
    tp = _TimeProxy()
    rp = _RandomProxy()
    import xknx.secure.data_secure as m1
    import xknx.management.management as m2
    import xknx.devices.travelcalculator as m3
    import xknx.devices.binary_sensor as m4
    import xknx.io.routing as m5
    import xknx.io.ip_secure as m6
    import xknx.core.task_registry as m7
    import xknx.io.util as m8
    import xknx.io.transport.udp_transport as m9
    for m in (m1, m2, m3, m4):
        m.time = tp
    try:
        import xknx.devices.datetime as m10
        # datetime device uses time.localtime / struct_time: leave the real functions,
        # the proxy forwards anything but time()/monotonic()
        m10.time = tp
    except Exception:  # pylint: disable=broad-except
        pass
    m5.random = rp
    m6.random = rp
    m6.generate_ecdh_key_pair = _seeded_keypair
    m7.set = OrderedSet
    m2.set = OrderedSet

    class _Ifaddr:
        @staticmethod
        def get_adapters():
            return [_FakeAdapter(n, ip) for n, ip in _CURRENT.adapters]

        IP = _FakeIP

    m8.ifaddr = _Ifaddr

    async def _default_local_ip(remote_ip: str = "224.0.23.12"):
        # the real function opens a UDP socket and asks the kernel for the route: simulated by the first adapter
        return _CURRENT.adapters[0][1] if _CURRENT.adapters else None

    m8.get_default_local_ip = _default_local_ip
    m9.UDPTransport.create_multicast_sock = staticmethod(FakeMcastSock)
    # quiet the library's loggers (its own "unexpected error" guards are counted separately)
    import logging
    for name in ("xknx.log", "xknx.knx", "xknx.raw_socket", "xknx.telegram",
                 "xknx.cemi", "xknx.cemi.invalid", "xknx.data_secure",
                 "xknx.management", "xknx.ip_secure", "xknx.state_updater", "xknx"):
        lg = logging.getLogger(name)
        lg.setLevel(logging.CRITICAL + 1)
        lg.propagate = False
    logging.getLogger("asyncio").setLevel(logging.CRITICAL + 1)
