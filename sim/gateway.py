"""SimGateway: an independently written KNXnet/IP tunnelling / device-management server.

Spec-faithful by default; every deviation is a scripted behaviour taken from the
plan (list indexed by the ordinal of the request kind, default = faithful).
Works over UDP and plain TCP.  The secure variant lives in secure_gateway.py.
"""

from __future__ import annotations

from collections import Counter
from typing import Any

from . import wire as W


class Channel:
    def __init__(self, cid, ctrl, data, via, mgmt):
        self.cid = cid
        self.ctrl = ctrl          # (ip, port) or tcp conn
        self.data = data
        self.via = via            # "udp" or TCPConn
        self.mgmt = mgmt
        self.last_seen = 0.0      # time of the last frame received on this channel (heartbeat supervision)
        self.rx_expected = 0      # next counter expected from client
        self.tx_seq = 0           # next counter for server->client requests
        self.open = True


class SimGateway:
    def __init__(self, net, ip="10.0.0.2", port=3671, script: dict[str, Any] | None = None,
                 ind_addr=0x1105, bus=None, tcp=True):
        self.net = net
        self.loop = net.loop
        self.ip = ip
        self.port = port
        self.script = script or {}
        self.ord: Counter[str] = Counter()
        self.channels: dict[int, Channel] = {}
        self.on_connected = None     # optional hook(cid), called when a ConnectRequest was accepted
        self.next_cid = int(self.script.get("first_channel", 1))
        self.sock = net.udp_bind(ip, port, self._on_udp)
        if tcp:
            net.tcp_listen(ip, port, self)
        self.tcp_buf: dict[int, bytes] = {}
        self.ind_addr = ind_addr
        self.bus = bus              # optional callable(cemi_bytes, channel) for received L_Data.req etc.
        self.fired: Counter[str] = Counter()
        self.rx: list[dict[str, Any]] = []   # everything received, parsed
        self.accepted: list[tuple[int, int, bytes]] = []
        self.reused_counter: list[dict] = []  # (cid, seq, cemi) processed exactly once
        self.unacked_srv: dict[tuple[int, int], Any] = {}
        self.srv_acks: list[tuple[float, int, int, int]] = []
        self.down = False
        self.last_cid = None
        self.max_channels = int(self.script.get("max_channels", 8))
        self.on_srv_ack = None     # optional callable(cid, seq, status) for acknowledgements of server-sent requests

    # ---------------------------------------------------------------- plumbing
    def _behaviour(self, kind: str) -> dict[str, Any]:
        n = self.ord[kind]
        self.ord[kind] = n + 1
        lst = self.script.get(kind)
        if lst and n < len(lst) and lst[n]:
            b = lst[n]
            if b.get("k") not in (None, "ok", "ack"):
                self.fired[f"{kind}:{b['k']}"] += 1
            return b
        return {"k": "ok"}

    def _on_udp(self, data: bytes, src, sock):
        if self.down:
            return
        self._handle(data, ("udp", src))

    # TCP server interface
    def on_accept(self, conn):
        self.tcp_buf[conn.cid] = b""
        if self.down:
            conn.server_close(ConnectionResetError(104, "reset"))

    def on_data(self, conn, data: bytes):
        if self.down:
            return
        buf = self.tcp_buf.get(conn.cid, b"") + data
        while len(buf) >= 6:
            h = W.parse_header(buf)
            if h is None or h[1] < 6:
                buf = b""
                break
            if len(buf) < h[1]:
                break
            fr, buf = buf[:h[1]], buf[h[1]:]
            self._handle(fr, ("tcp", conn))
        self.tcp_buf[conn.cid] = buf

    def on_close(self, conn):
        for ch in list(self.channels.values()):
            if ch.via is conn:
                ch.open = False
                del self.channels[ch.cid]

    def _reply(self, via, data: bytes, lat: float | None = None, to=None):
        if via[0] == "udp":
            self.sock.sendto(data, to or via[1], lat=lat)
        else:
            via[1].send_to_client(data, lat=lat)

    def _later(self, d, fn):
        self.loop.after(d, fn, label="gw")

    # ---------------------------------------------------------------- dispatch
    def _handle(self, data: bytes, via):
        sp = W.split(data)
        if sp is None:
            self.rx.append({"t": self.loop.time(), "svc": None, "raw": data})
            return
        svc, body = sp
        rec = {"t": self.loop.time(), "svc": svc, "body": body, "via": via[0],
               "conn": via[1].cid if via[0] == "tcp" else None}
        self.rx.append(rec)
        if svc == W.CONNECT_REQ:
            self._connect(body, via, rec)
        elif svc == W.CONNSTATE_REQ:
            self._connstate(body, via)
        elif svc == W.DISCONNECT_REQ:
            self._disconnect(body, via)
        elif svc == W.DISCONNECT_RES:
            pass
        elif svc in (W.TUNNEL_REQ, W.DEVCFG_REQ):
            self._data_request(svc, body, via, rec)
        elif svc in (W.TUNNEL_ACK, W.DEVCFG_ACK):
            if len(body) >= 4:
                self.srv_acks.append((self.loop.time(), body[1], body[2], body[3]))
                if self.on_srv_ack is not None:
                    self.on_srv_ack(body[1], body[2], body[3])
        elif svc == W.DESCR_REQ:
            pass

    # ---------------------------------------------------------------- connect
    def _connect(self, body, via, rec):
        try:
            cr = W.parse_connect_request(body)
        except Exception:  # pylint: disable=broad-except
            return
        b = self._behaviour("connect")
        k = b.get("k", "ok")
        rec["connect_behaviour"] = k
        exp = self.script.get("expire_channels_after")
        if exp:
            # a server closes a channel on which it saw no ConnectionStateRequest for 120 s (Core 5.4)
            for c_ in [c_ for c_ in self.channels.values() if self.loop.time() - c_.last_seen > exp]:
                c_.open = False
                del self.channels[c_.cid]
        if k == "drop":
            return
        mgmt = cr["type"] == 3
        if via[0] == "udp":
            src = via[1]
            ctrl = (cr["ctrl"][0], cr["ctrl"][1])
            if ctrl == ("0.0.0.0", 0):
                ctrl = src
            data_ep = (cr["data"][0], cr["data"][1])
            if data_ep == ("0.0.0.0", 0):
                data_ep = src
        else:
            ctrl = data_ep = None
        if k == "error" or len(self.channels) >= self.max_channels:
            status = b.get("status", 0x24)
            self._reply(via, W.connect_response(0, status), lat=b.get("lat"), to=ctrl)
            return
        cid = self.next_cid
        self.next_cid = cid % 255 + 1
        ch = Channel(cid, ctrl, data_ep, via, mgmt)
        ch.last_seen = self.loop.time()
        self.channels[cid] = ch
        self.last_cid = cid
        rec["channel"] = cid
        resp = W.connect_response(cid, 0, W.hpai(self.ip, self.port, tcp=via[0] == "tcp"),
                                  ind_addr=self.ind_addr, mgmt=mgmt)
        self._reply(via, resp, lat=b.get("lat"), to=ctrl)
        if self.on_connected is not None:
            self.on_connected(cid)      # e.g. bus traffic forwarded right behind the ConnectResponse
        if k == "dup":
            self._later(b.get("d", 0.2), lambda: self._reply(via, resp, to=ctrl))
        elif k == "ok+disconnect":
            # accepts the connection and closes it again at once (same segment over TCP): e.g. a gateway that
            # notices only afterwards that it has no free individual address
            self._later(b.get("d", 0.0), lambda: self.server_disconnect(cid))

    def _connstate(self, body, via):
        if len(body) < 2:
            return
        cid = body[0]
        b = self._behaviour("connstate")
        k = b.get("k", "ok")
        if k == "drop":
            return
        status = 0 if cid in self.channels else 0x21
        if cid in self.channels:
            self.channels[cid].last_seen = self.loop.time()
        if k == "error":
            status = b.get("status", 0x21)
        ch = self.channels.get(cid)
        to = ch.ctrl if ch is not None and via[0] == "udp" else None
        if k == "foreign":
            # a ConnectionStateResponse for another channel (e.g. the delayed answer to a heartbeat of the previous connection)
            # instead of the answer to this request
            self._reply(via, W.connstate_response((cid + 7) & 0xFF or 1, 0), lat=b.get("lat"), to=to)
            return
        self._reply(via, W.connstate_response(cid, status), lat=b.get("lat"), to=to)

    def _disconnect(self, body, via):
        if len(body) < 2:
            return
        cid = body[0]
        b = self._behaviour("disconnect")
        ch = self.channels.pop(cid, None)
        if ch is not None:
            ch.open = False
        if b.get("k") == "drop":
            return
        to = ch.ctrl if ch is not None and via[0] == "udp" else None
        self._reply(via, W.disconnect_response(cid, 0 if ch else 0x21), lat=b.get("lat"), to=to)

    # ---------------------------------------------------------------- data requests from client
    def _data_request(self, svc, body, via, rec):
        if len(body) < 4:
            return
        cid, seq = body[1], body[2]
        cemi = body[4:]
        ack_svc = W.TUNNEL_ACK if svc == W.TUNNEL_REQ else W.DEVCFG_ACK
        ch = self.channels.get(cid)
        kind = "ack" if svc == W.TUNNEL_REQ else "cfgack"
        if ch is None:
            rec["unknown_channel"] = True
            return
        b = self._behaviour(kind)
        k = b.get("k", "ok")
        rec["ack_behaviour"] = k
        tcp = via[0] == "tcp"
        process = False
        if tcp:
            # no acknowledgements and no counter evaluation on TCP (tunnelling and device management)
            process = True
        elif seq == ch.rx_expected:
            process = True
            ch.rx_expected = (ch.rx_expected + 1) & 0xFF
        elif seq == (ch.rx_expected - 1) & 0xFF:
            process = False
            last = next((c for (i, q, c) in reversed(self.accepted) if i == cid), None)
            if last is not None and last != cemi:
                # a *different* frame under the counter of the frame accepted before: the client did not advance
                self.reused_counter.append({"cid": cid, "seq": seq, "cemi": cemi, "previous": last, "t": self.loop.time()})
        else:
            rec["out_of_order"] = True
            return
        to = ch.data if not tcp else None

        def ack(c=cid, s=seq, st=0, lat=None):
            self._reply(via, W.frame(ack_svc, bytes((4, c, s, st))), lat=lat, to=to)

        if not tcp:
            if k in ("ok", "ack"):
                ack(lat=b.get("lat"))
            elif k == "none":
                pass
            elif k == "late":
                self._later(b.get("d", 1.2), ack)
            elif k == "dup":
                ack()
                self._later(b.get("d", 0.5), ack)
            elif k == "stale":
                ack(s=(seq - 1) & 0xFF)
            elif k == "stale+ack":
                ack(s=(seq - 1) & 0xFF)
                self._later(b.get("d", 0.3), ack)
            elif k == "foreign":
                ack(c=(cid % 255) + 1)
            elif k == "foreign+ack":
                ack(c=(cid % 255) + 1)
                self._later(b.get("d", 0.3), ack)
            elif k == "error":
                ack(st=b.get("status", 0x29))
            elif k == "future":
                ack(s=(seq + 1) & 0xFF)
        if process:
            if k in ("none", "stale", "foreign", "error", "future") and not tcp:
                # the gateway did not (properly) confirm: a faithful server would have
                # processed the frame anyway; keep counter semantics faithful
                pass
            self.accepted.append((cid, seq, cemi))
            rec["processed"] = True
            if self.bus is not None:
                self.bus(cemi, ch)

    # ---------------------------------------------------------------- server initiated
    def send_request(self, cid: int, cemi: bytes, seq: int | None = None, lat: float | None = None,
                     advance: bool = True, mgmt: bool | None = None):
        """Send a TunnellingRequest / DeviceConfigurationRequest to the client of channel `cid`."""
        ch = self.channels.get(cid)
        if ch is None:
            return None
        if seq is None:
            seq = ch.tx_seq
            if advance:
                ch.tx_seq = (ch.tx_seq + 1) & 0xFF
        is_mgmt = ch.mgmt if mgmt is None else mgmt
        fr = (W.devcfg_request if is_mgmt else W.tunnelling_request)(cid, seq, cemi)
        if ch.via[0] == "udp":
            self.sock.sendto(fr, ch.data, lat=lat)
        else:
            ch.via[1].send_to_client(fr, lat=lat)
        return seq

    def send_raw(self, cid: int, data: bytes, lat: float | None = None, ctrl: bool = False):
        ch = self.channels.get(cid)
        if ch is None:
            return
        if ch.via[0] == "udp":
            self.sock.sendto(data, ch.ctrl if ctrl else ch.data, lat=lat)
        else:
            ch.via[1].send_to_client(data, lat=lat)

    def server_disconnect(self, cid: int | None = None, wire_cid: int | None = None, forget: bool = True):
        """Send a DisconnectRequest for channel `cid` (default: the newest one)."""
        if cid is None:
            cid = self.last_cid
        ch = self.channels.get(cid)
        if ch is None:
            return None
        fr = W.disconnect_request(cid if wire_cid is None else wire_cid,
                                  W.hpai(self.ip, self.port, tcp=ch.via[0] == "tcp"))
        if ch.via[0] == "udp":
            self.sock.sendto(fr, ch.ctrl)
        else:
            ch.via[1].send_to_client(fr)
        if forget and wire_cid is None:
            ch.open = False
            del self.channels[cid]
        return cid

    def crash(self):
        """Forget all volatile state; stay silent until restart()."""
        self.down = True
        self.channels.clear()
        for conn in self.net.tcp_conns:
            if conn.open and conn.server is self:
                conn.server_close(ConnectionResetError(104, "reset"))

    def restart(self):
        self.down = False
