"""Simulated KNX bus behind the stub interface: SimKNXDevice population with an independent
transport-layer state machine (connection-oriented, style 3 without NAK handling beyond what
is scripted), programming mode, serial numbers and access levels."""

from __future__ import annotations

import struct
from typing import Any

from . import wire as W

T_CONNECT, T_DISCONNECT = 0x80, 0x81


def tl_frame(src: int, dst: int, tpdu: bytes, *, group: bool = False, code: int = W.L_DATA_IND) -> bytes:
    return W.cemi_ldata(code, src, dst, group=group, tpci_apci=tpdu, ctrl1=0xB0 if not group else 0xB0)


class SimKNXDevice:
    def __init__(self, bus: "SimBus", ia: int, *, serial: bytes = b"\x00\x01\x02\x03\x04\x05", prog: bool = False,
                 behaviour: str = "answers", levels: dict[int, int] | None = None, free_level: int = 15, mask: int = 0x07B0,
                 script: dict[str, Any] | None = None):
        self.bus = bus
        self.ia = ia
        self.serial = serial
        self.prog = prog
        self.behaviour = behaviour     # answers | refuses | silent
        self.levels = levels or {}
        self.free_level = free_level
        self.mask = mask
        self.script = script or {}     # adversarial transport-layer behaviours (C43)
        self.base_script = dict(self.script)
        self.script_seq: list[dict[str, Any]] = list(self.script.get("per_request") or [])   # overrides per request ordinal
        self.req_ordinal = -1
        self._acked_once: set[tuple[int, int, int]] = set()
        self.last_data: dict[int, tuple[int, bytes]] = {}     # per peer: (number, apdu) of the data frame sent last
        self.conn: dict[int, dict[str, int]] = {}
        self.log: list[tuple[float, str, Any]] = []
        self.restarts = 0
        self.writes: list[tuple[float, int, int]] = []   # (t, old, new)

    def note(self, kind, detail=None):
        self.log.append((self.bus.loop.time(), kind, detail))

    # ---- frames from the bus
    def on_frame(self, c: dict[str, Any]):
        tpdu = c["tpdu"]
        if not tpdu:
            return
        t0 = tpdu[0]
        src = c["src"]
        if c["group"]:
            if c["dst"] == 0 and (t0 & 0xFC) == 0:
                self._broadcast(src, tpdu)
            return
        if c["dst"] != self.ia or self.behaviour == "silent":
            return
        if t0 == T_CONNECT:
            self.note("t_connect", src)
            if self.behaviour == "refuses":
                self.bus.emit(self, src, bytes((T_DISCONNECT,)))
                return
            self.conn[src] = {"rx": 0, "tx": 0}
            return
        if t0 == T_DISCONNECT:
            self.note("t_disconnect", src)
            self.conn.pop(src, None)
            return
        if t0 & 0xC0 == 0xC0:      # T_ACK / T_NAK
            self.note("t_ack" if t0 & 3 == 2 else "t_nak", (src, (t0 >> 2) & 0xF))
            return
        if t0 & 0xC0 == 0x40:      # T_Data_Connected
            seq = (t0 >> 2) & 0xF
            st = self.conn.get(src)
            if st is None:
                if not self.base_script.get("closed_silent"):   # some stacks ignore data frames while no connection is open
                    self.bus.emit(self, src, bytes((T_DISCONNECT,)))
                return
            apdu = bytes((t0 & 0x03,)) + tpdu[1:]
            if seq == st["rx"]:
                st["rx"] = (st["rx"] + 1) & 0xF
                self.req_ordinal += 1
                if self.script_seq:
                    over = self.script_seq[self.req_ordinal] if self.req_ordinal < len(self.script_seq) else {}
                    self.script = {**self.base_script, **(over or {})}
                self._ack(src, seq)
                self.note("data", (src, seq, apdu.hex()))
                self._apdu_connected(src, apdu)
            elif seq == (st["rx"] - 1) & 0xF:
                self._ack(src, seq)
                self.note("data_repeated", (src, seq))
            else:
                self.bus.emit(self, src, bytes((0xC3 | (seq << 2),)))
            return
        if t0 & 0xFC == 0:          # T_Data_Individual
            self.note("data_individual", (src, tpdu.hex()))

    def _ack(self, dst, seq):
        b = self.script.get("ack", "normal")
        if b == "none":
            return
        if b == "lost_once":
            # the acknowledgement of the first transmission of each data frame is lost, the one of its repetition arrives
            key_ = (dst, seq, self.req_ordinal)
            if key_ not in self._acked_once:
                self._acked_once.add(key_)
                return
        n = seq if b != "wrong" else (seq + 5) & 0xF
        lat = self.script.get("ack_lat")
        self.bus.emit(self, dst, bytes((0xC2 | (n << 2),)), lat=lat)
        if b == "dup":
            self.bus.emit(self, dst, bytes((0xC2 | (n << 2),)), lat=(lat or self.bus.lat) + self.script.get("dup_gap", 0.0))
        if b == "nak":
            pass

    def send_data(self, dst, apdu: bytes, seq: int | None = None, lat: float | None = None):
        st = self.conn.get(dst)
        if st is None:
            return
        if seq is None:
            seq = st["tx"]
            st["tx"] = (st["tx"] + 1) & 0xF
        tpdu = bytes((0x40 | (seq << 2) | (apdu[0] & 0x03),)) + apdu[1:]
        self.last_data[dst] = (seq, apdu)
        self.bus.emit(self, dst, tpdu, lat=lat)

    def _apdu_connected(self, src, apdu: bytes):
        code = (apdu[0] << 8 | apdu[1]) & 0x03FF
        rb = self.script.get("respond", "normal")
        if rb == "silent":
            return
        if (code & 0x03C0) == 0x0300:      # DeviceDescriptorRead
            resp = bytes((0x03, 0x40 | (code & 0x3F))) + struct.pack(">H", self.mask)
        elif code == 0x03D1 and len(apdu) >= 7:                                 # AuthorizeRequest
            key = int.from_bytes(apdu[3:7], "big")
            level = self.levels.get(key, self.free_level)
            resp = bytes((0x03, 0xD2, level))
        elif code == 0x0380:                                                     # Restart
            self.restarts += 1
            self.note("restart", src)
            self.prog = False
            self.conn.pop(src, None)
            return
        else:
            return
        lat = self.script.get("resp_lat")
        if rb == "prev+normal":
            # the device repeats the data frame it sent last (it never saw an acknowledgement for it), then answers
            prev = self.last_data.get(src)
            if prev is not None:
                self.send_data(src, prev[1], seq=prev[0], lat=0.0005)
            self.send_data(src, resp, lat=lat if lat is not None else self.bus.lat + 0.002)
        elif rb == "normal":
            self.send_data(src, resp, lat=lat)
        elif rb == "dup":
            st = self.conn.get(src)
            seq = st["tx"]
            self.send_data(src, resp, lat=lat)
            self.send_data(src, resp, seq=seq, lat=(lat or self.bus.lat) + self.script.get("dup_gap", 0.0))
        elif rb == "wrong_seq":
            self.send_data(src, resp, seq=(self.conn[src]["tx"] + 3) & 0xF, lat=lat)
        elif rb == "before_ack":
            self.send_data(src, resp, lat=0.0)
        elif rb == "wrong_type":
            self.send_data(src, bytes((0x03, 0xD2, 1)) if code != 0x03D1 else bytes((0x03, 0x40, 0, 0)), lat=lat)
        elif rb == "disconnect":
            self.bus.emit(self, src, bytes((T_DISCONNECT,)), lat=lat)
            self.conn.pop(src, None)

    def _broadcast(self, src, tpdu: bytes):
        code = (tpdu[0] << 8 | tpdu[1]) & 0x03FF
        if self.behaviour == "silent":
            # a silent device still listens to broadcast writes
            pass
        if code == 0x0100:      # IndividualAddressRead
            if self.prog and self.behaviour != "silent":
                self.bus.emit(self, 0, bytes((0x01, 0x40)), group=True, lat=self.script.get("bc_lat"))
        elif code == 0x00C0 and len(tpdu) >= 4:   # IndividualAddressWrite
            if self.prog:
                new = struct.unpack(">H", tpdu[2:4])[0]
                self.writes.append((self.bus.loop.time(), self.ia, new))
                self.note("address_written", (self.ia, new))
                self.ia = new
        elif code == 0x03DC and len(tpdu) >= 8:   # IndividualAddressSerialRead
            if tpdu[2:8] == self.serial and self.behaviour != "silent":
                self.bus.emit(self, 0, bytes((0x03, 0xDD)) + self.serial + bytes(4), group=True, lat=self.script.get("bc_lat"))
        elif code == 0x03DE and len(tpdu) >= 10:  # IndividualAddressSerialWrite
            if tpdu[2:8] == self.serial:
                new = struct.unpack(">H", tpdu[8:10])[0]
                self.writes.append((self.bus.loop.time(), self.ia, new))
                self.note("address_written_by_serial", (self.ia, new))
                self.ia = new


class SimBus:
    def __init__(self, R, stub, lat: float = 0.02):
        self.R = R
        self.loop = R.loop
        self.stub = stub
        self.lat = lat
        self.devices: list[SimKNXDevice] = []
        self.from_xknx: list[dict[str, Any]] = []
        self.lat_of = None      # optional fn(device) -> latency
        self.glue = None        # optional fn(parsed frame) -> bool: the devices' answers arrive in the confirmation's callback
        self._collect: list[tuple[bytes, str]] | None = None
        stub.on_send = self._from_xknx

    def add(self, **kw) -> SimKNXDevice:
        d = SimKNXDevice(self, **kw)
        self.devices.append(d)
        return d

    def _from_xknx(self, raw: bytes, rec):
        c = W.parse_cemi_ldata(raw)
        if c is None:
            return
        c["t"] = self.loop.time()
        c["n"] = self.R.record("bus_out", "xknx", raw.hex())
        self.from_xknx.append(c)
        if self.glue is not None and rec.get("b", {}).get("con", "after") == "after" and self.glue(c):
            # the devices hear the frame at once and whatever they answer reaches xknx in the same receive callback as the
            # frame's L_Data.con
            self._collect = []
            try:
                for d in list(self.devices):
                    d.on_frame(c)
            finally:
                rec["glued"], self._collect = self._collect, None
            return
        # every device hears the frame after the bus latency
        self.loop.after(self.lat, lambda: [d.on_frame(c) for d in list(self.devices)], label="bus")

    def emit(self, dev: SimKNXDevice, dst: int, tpdu: bytes, *, group: bool = False, lat: float | None = None):
        raw = tl_frame(dev.ia, dst, tpdu, group=group)
        if self._collect is not None:
            self._collect.append((raw, f"dev{dev.ia:04x}"))
            return
        if lat is None:
            lat = self.lat_of(dev) if self.lat_of else self.lat
        self.loop.after(lat, lambda: self.stub.deliver(raw, f"dev{dev.ia:04x}"), label="bus_in")

    def inject(self, src: int, dst: int, tpdu: bytes, *, group: bool = False, lat: float = 0.0):
        raw = tl_frame(src, dst, tpdu, group=group)
        self.loop.after(lat, lambda: self.stub.deliver(raw, "inject"), label="bus_in")
