"""W-RUN helpers: a StubInterface standing in for KNXIPInterface (the seam the
test-suite itself uses: `xknx.knxip_interface = ...`), recording queue, bus responder."""

from __future__ import annotations

import asyncio
from typing import Any, Callable

from . import wire as W


class StubInterface:
    """Planned `send_cemi` outcomes, latencies and confirmations.

    script: list of behaviours consumed per send_cemi call (default: ok, small latency,
    confirmation shortly after return):
      {"lat": s, "out": "ok"|"comm_error"|"comm_error_sent"|"conf_error"|"exc", "con": None|"before_return"|"after"|"never",
       "con_d": s}
    """

    def __init__(self, R, xknx, script: list[dict[str, Any]] | None = None, default: dict[str, Any] | None = None):
        from xknx.io import ConnectionConfig, ConnectionType
        self.R = R
        self.xknx = xknx
        self.script = list(script or [])
        self.default = default or {"lat": 0.002, "out": "ok", "con": "after", "con_d": 0.003}
        self.connection_config = ConnectionConfig(connection_type=ConnectionType.TUNNELING, gateway_ip="10.0.0.2")
        self.calls = 0
        self.handoffs: list[dict[str, Any]] = []
        self.in_send = 0
        self.on_send: Callable[[bytes, dict], None] | None = None
        self.connect_on_start = True
        self.pick: Callable[[bytes, int], dict | None] | None = None

    async def start(self):
        from xknx.core import XknxConnectionState, XknxConnectionType
        if self.connect_on_start:
            self.xknx.connection_manager.connection_state_changed(XknxConnectionState.CONNECTED, XknxConnectionType.TUNNEL_UDP)

    async def stop(self):
        from xknx.core import XknxConnectionState
        self.xknx.connection_manager.connection_state_changed(XknxConnectionState.DISCONNECTED)

    async def gateway_info(self):
        return None

    def cemi_received(self, raw: bytes):
        self.xknx.cemi_handler.handle_raw_cemi(raw)

    def _deliver_con(self, con: bytes, rec: dict[str, Any]):
        """The confirmation and - when the bus model glued them to it - the peer's answers, in one receive callback
        (two KNXnet/IP frames in one TCP segment / one stalled read)."""
        def both():
            self.R.record("cemi_in", "con", con.hex())
            self.cemi_received(con)
            for raw, label in rec.get("glued", ()):
                self.R.record("cemi_in", label + "+glued", raw.hex())
                self.cemi_received(raw)
        if rec.get("glued"):
            self.R.net.guard(both, where="cemi_received")
        else:
            self.deliver(con, "con")

    def deliver(self, raw: bytes, label: str = "frame"):
        """Hand a frame in as the interface would, guarded like a protocol callback."""
        self.R.record("cemi_in", label, raw.hex())
        self.R.net.guard(self.cemi_received, raw, where="cemi_received")

    async def send_cemi(self, cemi):
        from xknx.exceptions import CommunicationError, ConfirmationError
        i = self.calls
        self.calls += 1
        raw = cemi.to_knx()
        if self.pick is not None:
            b = self.pick(raw, i) or self.default
        else:
            b = self.script[i] if i < len(self.script) and self.script[i] else self.default
        rec = {"i": i, "n": self.R.record("handoff", "iface", raw.hex()), "t": self.R.loop.time(), "raw": raw,
               "b": b, "ret_n": None, "ret_t": None, "overlap": self.in_send > 0}
        self.handoffs.append(rec)
        if self.in_send > 0:
            for h in self.handoffs[:-1]:
                if h["ret_n"] is None:
                    h["overlap"] = True
        self.in_send += 1
        loop = self.R.loop
        con = bytes((W.L_DATA_CON,)) + raw[1:]
        try:
            lat = float(b.get("lat", 0.002))
            ck = b.get("con", "after")
            out = b.get("out", "ok")
            if ck == "before_return" and out == "ok":
                loop.after(lat * 0.5, lambda: self.deliver(con, "con"), label="con")
            if lat > 0:
                await asyncio.sleep(lat)
            if out == "comm_error":
                raise CommunicationError("scripted send failure")
            if out == "comm_error_sent":
                # the frame went out (and is seen on the bus) but the hand-off still fails, e.g. its acknowledgement was lost
                if self.on_send is not None:
                    self.on_send(raw, rec)
                raise CommunicationError("scripted send failure after transmission")
            if out == "conf_error":
                raise ConfirmationError("scripted confirmation failure")
            if out == "exc":
                raise ValueError("scripted unexpected failure")
            if ck == "after":
                loop.after(float(b.get("con_d", 0.003)), lambda: self._deliver_con(con, rec), label="con")
            if self.on_send is not None:
                self.on_send(raw, rec)
        finally:
            self.in_send -= 1
            rec["ret_n"] = self.R.record("handoff_ret", "iface", i)
            rec["ret_t"] = loop.time()


class RecordingQueue(asyncio.Queue):
    """xknx.telegrams replacement that logs every put (observation only)."""

    def __init__(self, R):
        super().__init__()
        self._R = R
        self.puts: list[Any] = []

    def put_nowait(self, item):
        self.puts.append(item)
        self._R.record("queue_put", "telegrams", _tg_repr(item))
        return super().put_nowait(item)


def _tg_repr(t) -> str:
    if t is None:
        return "None"
    try:
        pl = t.payload
        val = getattr(pl, "value", None)
        return f"{t.direction.name}:{t.destination_address}:{type(pl).__name__}:{getattr(val, 'value', val)}"
    except Exception:  # pylint: disable=broad-except
        return repr(t)


def make_xknx(R, script=None, default=None, **xknx_kwargs):
    """Real XKNX with the stub interface and a recording telegram queue."""
    from xknx import XKNX
    xknx = XKNX(**xknx_kwargs)
    stub = StubInterface(R, xknx, script, default)
    xknx.knxip_interface = stub
    q = RecordingQueue(R)
    xknx.telegrams = q
    return xknx, stub, q
