"""W-DS helpers: Data Secure bus with a receiver node, sender nodes and a reference device."""

from __future__ import annotations

import struct
from typing import Any

from . import crypto as C
from . import wire as W
from .runworld import make_xknx

SCF_ENC = 0x10   # authenticated encryption, S-A_Data
SCF_AUTH = 0x00  # authentication only, S-A_Data


def secure_frame(key: bytes, apdu: bytes, seq: int, src: int, dst: int, *, scf: int = SCF_ENC, code: int = W.L_DATA_IND,
                 ctrl1: int | None = None, hops: int = 6, ext_format: int = 0, group: bool = True,
                 asdu: bytes | None = None, tpci: int = 0x00) -> bytes:
    """Complete cEMI frame carrying a Data Secure APDU built by the independent implementation."""
    if asdu is None:
        asdu = C.ds_secure(key, apdu, scf, seq, src, dst, group, ext_format, tpci)
    tpdu = bytes((tpci | 0x03, 0xF1, scf)) + asdu
    if ctrl1 is None:
        ctrl1 = 0xBC if len(tpdu) - 1 <= 15 else 0x3C
    return W.cemi_ldata(code, src, dst, group=group, tpci_apci=tpdu, ctrl1=ctrl1, hops=hops, ext_format=ext_format)


def parse_secure(raw: bytes) -> dict[str, Any] | None:
    """Independent parse of a cEMI frame with a Data Secure APDU."""
    c = W.parse_cemi_ldata(raw)
    if c is None:
        return None
    t = c["tpdu"]
    if len(t) < 13 or (t[0] & 0x03) != 0x03 or t[1] != 0xF1:
        return None
    c["scf"] = t[2]
    c["seq"] = int.from_bytes(t[3:9], "big")
    c["asdu"] = t[3:]
    c["tpci_octet"] = t[0] & 0xFC
    return c


def gv_write_apdu(data: bytes) -> bytes:
    """Plain APDU of a GroupValueWrite with `data` (1 octet <64 -> short form is NOT used here: appended form)."""
    return bytes((0x00, 0x80)) + data


class Node:
    """One real xknx instance on the simulated Data Secure bus."""

    def __init__(self, R, name: str, ia: int, keys: dict[int, bytes], senders: dict[int, int],
                 last_seq_sending: int | None = None):
        from xknx.secure.data_secure import DataSecure
        from xknx.telegram import GroupAddress, IndividualAddress
        self.R = R
        self.name = name
        self.ia = ia
        self.xknx, self.stub, self.q = make_xknx(R)
        self.xknx.current_address = IndividualAddress(ia)
        self.keys = keys
        self.make_ds = lambda table=None, last=last_seq_sending: DataSecure(
            group_key_table={GroupAddress(g): k for g, k in keys.items()},
            individual_address_table={IndividualAddress(a): s for a, s in (table if table is not None else senders).items()},
            last_sequence_number_sending=last)
        self.xknx.cemi_handler.data_secure = self.make_ds()
        self._senders = senders
        self.delivered: list[dict[str, Any]] = []
        self.key_issues: list[dict[str, Any]] = []
        self.sent_raw: list[bytes] = []
        # telegrams that are not T_Data_Group go to Management.process instead of the telegram queue: observed there
        self.mgmt_seen: list[dict[str, Any]] = []
        from xknx.management import Management
        node = self

        class RecMgmt(Management):
            __slots__ = ()

            def process(self, telegram):
                try:
                    apdu = bytes(telegram.payload.to_knx()) if telegram.payload is not None else b""
                except Exception:  # pylint: disable=broad-except
                    apdu = b"?"
                node.mgmt_seen.append({"src": telegram.source_address.raw, "dst": telegram.destination_address.raw,
                                       "apdu": apdu, "secure": telegram.data_secure, "tpci": type(telegram.tpci).__name__,
                                       "n": node.R.record("mgmt_process", node.name, apdu.hex())})
                return super().process(telegram)

        self.xknx.management = RecMgmt(self.xknx)
        self.xknx.telegram_queue.register_telegram_received_cb(self._on_tg)
        self.xknx.telegram_queue.register_data_secure_group_key_issue_cb(self._on_issue)

    def restart_data_secure(self):
        """What KNXIPInterface._start() does on every start of the same XKNX object: Data Secure is set up again from the keyring
        (here: a stand-in answering the two questions DataSecure.init_from_keyring asks)."""
        from xknx.telegram import GroupAddress, IndividualAddress
        node = self

        class _Keyring:
            def get_data_secure_group_keys(self):
                return {GroupAddress(g): k for g, k in node.keys.items()}

            def get_data_secure_senders(self):
                return {IndividualAddress(a): s for a, s in node._senders.items()}

        self.xknx.cemi_handler.data_secure_init(_Keyring())

    def _on_tg(self, tg):
        try:
            apdu = bytes(tg.payload.to_knx())
        except Exception:  # pylint: disable=broad-except
            apdu = b"?"
        self.delivered.append({"src": tg.source_address.raw, "dst": tg.destination_address.raw, "apdu": apdu,
                               "secure": tg.data_secure, "n": self.R.record("delivered", self.name, apdu.hex())})

    def _on_issue(self, tg):
        self.key_issues.append({"src": tg.source_address.raw, "dst": tg.destination_address.raw,
                                "secure": tg.data_secure, "n": self.R.record("key_issue", self.name, "")})
