"""Batch runner: seeds -> plans -> runs -> verdicts, evidence, replay, minimisation."""

from __future__ import annotations

from collections import Counter
from concurrent.futures import ProcessPoolExecutor, TimeoutError as FutTimeout
import faulthandler
import gc
import hashlib
import importlib
import json
import multiprocessing
import os
import subprocess
import sys
import time
import traceback
from typing import Any

ROOT = os.path.dirname(os.path.dirname(os.path.abspath(__file__)))
EVIDENCE_DIR = os.environ.get("VERIF_EVIDENCE_DIR") or os.path.join(ROOT, "evidence")
REPLAY_DIR = os.path.join(ROOT, "replays")
KNOWN_FILE = os.path.join(ROOT, "known_findings.json")
NPROC = int(os.environ.get("VERIF_PROCS", "16"))


def seed_for(master: int, prop: str, i: int) -> int:
    h = hashlib.sha256(f"{master}/{prop}/{i}".encode()).digest()
    return int.from_bytes(h[:6], "big")


def load_prop(pid: str):
    return importlib.import_module(f"props.{pid.lower()}")


def sig_of(v: dict[str, Any]) -> str:
    return f"{v['clause']}|{v['sig']}"


# ------------------------------------------------------------------ single run
class SimHang(Exception):
    """Raised by the per-run watchdog inside whatever code has been running for 2 x RUN_WALL_LIMIT seconds of *CPU* time: one
    simulated run takes milliseconds, so this is code that does not return (a parser looping for ever inside a protocol
    callback).  Raised as an ordinary exception so that it surfaces where asyncio would see it: inside a protocol callback
    it is recorded as an escape ("SimHang@<function>"), anywhere else it is a harness error."""


RUN_WALL_LIMIT = float(os.environ.get("VERIF_RUN_WALL_LIMIT", "5"))


HANGS: list[str] = []     # functions of the code under test the watchdog interrupted during the current run


_LAST_ITER = [None]


def _hang_handler(signum, frame):
    # only a loop that made no progress at all since the previous tick is a hang (long runs are not)
    try:
        from . import seams
        it = seams._CURRENT.loop.iteration if seams._CURRENT is not None else None   # pylint: disable=protected-access
    except Exception:  # pylint: disable=broad-except
        it = None
    if it is not None and it != _LAST_ITER[0]:
        _LAST_ITER[0] = it
        return
    f = frame
    name = "?"
    while f is not None:
        if "/xknx/" in f.f_code.co_filename:
            name = f.f_code.co_name
            break
        f = f.f_back
    HANGS.append(name)
    raise SimHang(f"no progress of the simulated loop within {RUN_WALL_LIMIT:.0f} s of CPU time")


def run_one(mod, plan: dict[str, Any]) -> dict[str, Any]:
    """Run a plan; harness exceptions become res['error'] (never a verdict)."""
    gc.disable()
    armed = False
    try:
        import signal
        import threading
        if threading.current_thread() is threading.main_thread() and getattr(mod, "HANG_WATCHDOG", True):
            del HANGS[:]
            _LAST_ITER[0] = None
            # CPU time of this process, not wall-clock time: a worker starved of CPU by other processes makes no progress
            # either, but a parser looping for ever burns CPU
            signal.signal(signal.SIGVTALRM, _hang_handler)
            signal.setitimer(signal.ITIMER_VIRTUAL, RUN_WALL_LIMIT, RUN_WALL_LIMIT)
            armed = True
    except (ValueError, OSError, AttributeError):
        armed = False
    try:
        res = mod.run(plan)
    except Exception:  # pylint: disable=broad-except
        res = {"violations": [], "error": traceback.format_exc(limit=12), "plan": plan}
    finally:
        if armed:
            import signal
            signal.setitimer(signal.ITIMER_VIRTUAL, 0)
        gc.enable()
    res.setdefault("violations", [])
    res.setdefault("probes", {})
    res.setdefault("faults", {})
    res.setdefault("sim_s", 0.0)
    res.setdefault("trace", "")
    res.setdefault("digest", "")
    res.setdefault("nontrivial", True)
    res.setdefault("plan", plan)
    return res


def _isolated(fn, *args):
    """Run fn(*args) in a forked child and return its (picklable) result: whatever state the code under test keeps at module or
    class level dies with the child, so every chunk of runs - and every candidate of the minimiser - starts from the same,
    pristine process state."""
    if os.environ.get("VERIF_NO_FORK"):
        return fn(*args)
    import pickle
    r, w = os.pipe()
    child = os.fork()
    if child == 0:
        rc = 0
        try:
            os.close(r)
            try:
                data = pickle.dumps(("ok", fn(*args)), protocol=pickle.HIGHEST_PROTOCOL)
            except BaseException:  # pylint: disable=broad-except
                data = pickle.dumps(("error", traceback.format_exc(limit=12)))
            with os.fdopen(w, "wb") as f:
                f.write(data)
        except BaseException:  # pylint: disable=broad-except
            rc = 1
        finally:
            os._exit(rc)
    os.close(w)
    with os.fdopen(r, "rb") as f:
        data = f.read()
    os.waitpid(child, 0)
    if not data:
        raise RuntimeError("isolated child died without a result")
    kind, val = pickle.loads(data)
    if kind == "error":
        raise RuntimeError("isolated child failed:\n" + val)
    return val


_PRELOADED = False


def _preload():
    """Import the package under test once, before forking: a child that has to import it (cryptography included) inside its
    first run does so under that run's CPU-time watchdog.  Importing creates no instance of anything."""
    global _PRELOADED  # pylint: disable=global-statement
    if _PRELOADED:
        return
    _PRELOADED = True
    for name in ("xknx", "xknx.devices", "xknx.io", "xknx.io.tunnel", "xknx.io.routing", "xknx.io.device_management_connection",
                 "xknx.io.gateway_scanner", "xknx.io.ip_secure", "xknx.management", "xknx.management.procedures",
                 "xknx.secure.keyring", "xknx.secure.data_secure", "xknx.tools"):
        try:
            importlib.import_module(name)
        except Exception:  # pylint: disable=broad-except
            pass


def _chunk_worker(args):
    _preload()
    return _isolated(_chunk_body, args)


def _chunk_body(args):
    pid, master, tier, lo, hi, keep = args
    faulthandler.dump_traceback_later(float(os.environ.get("VERIF_CHUNK_TIMEOUT", "1500")), exit=True)
    mod = load_prop(pid)
    agg = {
        "runs": 0, "sim_s": 0.0, "probes": Counter(), "faults": Counter(),
        "traces": set(), "nontrivial_traces": set(), "viol": {}, "errors": [],
        "samples": [], "viol_runs": 0, "tiers": Counter(),
    }
    for i in range(lo, hi):
        seed = seed_for(master, pid, i)
        try:
            plan = mod.gen_index(i, seed, tier) if hasattr(mod, "gen_index") else mod.gen(seed, tier)
        except Exception:  # pylint: disable=broad-except
            agg["errors"].append({"seed": seed, "error": traceback.format_exc(limit=8)})
            continue
        plan.setdefault("seed", seed)
        res = run_one(mod, plan)
        agg["runs"] += 1
        agg["sim_s"] += res["sim_s"]
        agg["probes"].update(res["probes"])
        agg["faults"].update(res["faults"])
        agg["tiers"][plan.get("tier", "S")] += 1
        agg["traces"].add(res["trace"])
        if res["nontrivial"]:
            agg["nontrivial_traces"].add(res["trace"])
        if res.get("error"):
            if len(agg["errors"]) < 3:
                agg["errors"].append({"seed": seed, "error": res["error"]})
            else:
                agg["errors"].append({"seed": seed, "error": "..."})
        if res["violations"]:
            agg["viol_runs"] += 1
            for v in res["violations"]:
                s = sig_of(v)
                slot = agg["viol"].setdefault(s, {"count": 0, "first": None})
                slot["count"] += 1
                if slot["first"] is None:
                    slot["first"] = {"plan": res["plan"], "violation": v, "seed": seed, "index": i, "chunk_lo": lo}
        if len(agg["samples"]) < keep and (res["nontrivial"] or i == lo):
            agg["samples"].append(mod.sample(res) if hasattr(mod, "sample") else _default_sample(res))
        if (i & 63) == 0:
            gc.collect()
    faulthandler.cancel_dump_traceback_later()
    agg["traces"] = list(agg["traces"])
    agg["nontrivial_traces"] = list(agg["nontrivial_traces"])
    agg["probes"] = dict(agg["probes"])
    agg["faults"] = dict(agg["faults"])
    agg["tiers"] = dict(agg["tiers"])
    return agg


def _default_sample(res):
    plan = res["plan"]
    out = {k: plan[k] for k in plan if k in ("seed", "config", "tier")}
    ops = plan.get("ops")
    if ops is not None:
        out["ops"] = ops[:12]
        out["n_ops"] = len(ops)
    if plan.get("faults"):
        out["faults"] = dict(list(plan["faults"].items())[:8])
    out["probes"] = res.get("probes")
    return out


def run_batch(pid: str, master: int, tier: str, n_runs: int, wall_budget: float | None = None):
    """Fan out over forked workers; merge in index order (deterministic)."""
    mod = load_prop(pid)
    chunk = max(1, min(getattr(mod, "CHUNK", 200), (n_runs + NPROC * 4 - 1) // (NPROC * 4)))
    jobs = []
    lo = 0
    while lo < n_runs:
        hi = min(n_runs, lo + chunk)
        jobs.append((pid, master, tier, lo, hi, 1))
        lo = hi
    t0 = time.time()
    merged = {
        "runs": 0, "sim_s": 0.0, "probes": Counter(), "faults": Counter(),
        "traces": set(), "nontrivial_traces": set(), "viol": {}, "errors": [],
        "samples": [], "viol_runs": 0, "tiers": Counter(), "skipped_chunks": 0,
    }
    ctx = multiprocessing.get_context("fork")
    procs = max(1, min(NPROC, len(jobs)))
    with ProcessPoolExecutor(max_workers=procs, mp_context=ctx) as ex:
        futs = [ex.submit(_chunk_worker, j) for j in jobs]
        for j, f in zip(jobs, futs):
            if wall_budget is not None and time.time() - t0 > wall_budget and not f.running() and not f.done():
                if f.cancel():
                    merged["skipped_chunks"] += 1
                    continue
            try:
                agg = f.result(timeout=float(os.environ.get("VERIF_CHUNK_TIMEOUT", "1500")) + 60)
            except FutTimeout:
                merged["errors"].append({"seed": None, "error": f"chunk {j[3]}-{j[4]} timed out"})
                continue
            except Exception as exc:  # worker died  # pylint: disable=broad-except
                merged["errors"].append({"seed": None, "error": f"chunk {j[3]}-{j[4]}: {exc!r}"})
                continue
            merged["runs"] += agg["runs"]
            merged["sim_s"] += agg["sim_s"]
            merged["probes"].update(agg["probes"])
            merged["faults"].update(agg["faults"])
            merged["tiers"].update(agg["tiers"])
            merged["traces"].update(agg["traces"])
            merged["nontrivial_traces"].update(agg["nontrivial_traces"])
            merged["viol_runs"] += agg["viol_runs"]
            merged["errors"].extend(agg["errors"])
            if len(merged["samples"]) < 3:
                merged["samples"].extend(agg["samples"][: 3 - len(merged["samples"])])
            for s, slot in agg["viol"].items():
                m = merged["viol"].setdefault(s, {"count": 0, "first": None})
                m["count"] += slot["count"]
                if m["first"] is None:
                    m["first"] = slot["first"]
    merged["wall_s"] = time.time() - t0
    return merged


# ------------------------------------------------------------------ minimise
def _fails_after(pid: str, history: list, plan, sig) -> bool:
    mod = load_prop(pid)
    for h in history:
        run_one(mod, h)
    res = run_one(mod, plan)
    return any(sig_of(v) == sig for v in res["violations"])


def _still_fails(mod, plan, sig, history=()) -> bool:
    _preload()
    return bool(_isolated(_fails_after, mod.ID, list(history), plan, sig))


def minimise_history(mod, history: list, plan, sig: str, budget_s: float = 60.0):
    """The violation shows only after earlier runs in the same process: find a small set of them (delta debugging)."""
    t0 = time.time()
    items = list(history)
    n = 2
    while items and time.time() - t0 < budget_s:
        size = max(1, len(items) // n)
        removed = False
        for i in range(0, len(items), size):
            cand = items[:i] + items[i + size:]
            if _still_fails(mod, plan, sig, cand):
                items = cand
                removed = True
                break
            if time.time() - t0 >= budget_s:
                break
        if not removed:
            if size == 1:
                break
            n = min(len(items), n * 2)
    return items


def minimise(mod, plan: dict[str, Any], sig: str, budget_s: float = 25.0, max_runs: int = 400, history=()):
    """Delta debugging over the plan's op list and fault table, then module-specific shrinks."""
    t0 = time.time()
    runs = 0
    plan = json.loads(json.dumps(plan))
    plan["replay"] = True

    def ok(cand):
        nonlocal runs
        runs += 1
        return _still_fails(mod, cand, sig, history)

    if not ok(plan):
        return plan, runs, False

    def budget():
        return time.time() - t0 < budget_s and runs < max_runs

    list_keys = [k for k in getattr(mod, "SHRINK_LISTS", ("ops",)) if isinstance(plan.get(k), list)]
    dict_keys = [k for k in getattr(mod, "SHRINK_DICTS", ("faults",)) if isinstance(plan.get(k), dict)]
    changed = True
    while changed and budget():
        changed = False
        for k in dict_keys:
            keys = list(plan[k].keys())
            n = 2
            while keys and budget():
                size = max(1, len(keys) // n)
                removed_any = False
                for i in range(0, len(keys), size):
                    part = keys[i:i + size]
                    cand = dict(plan)
                    cand[k] = {kk: vv for kk, vv in plan[k].items() if kk not in part}
                    if ok(cand):
                        plan = cand
                        keys = list(plan[k].keys())
                        removed_any = changed = True
                        break
                    if not budget():
                        break
                if not removed_any:
                    if size == 1:
                        break
                    n = min(len(keys), n * 2)
        for k in list_keys:
            items = plan[k]
            n = 2
            while items and budget():
                size = max(1, len(items) // n)
                removed_any = False
                for i in range(0, len(items), size):
                    cand = dict(plan)
                    cand[k] = items[:i] + items[i + size:]
                    if ok(cand):
                        plan = cand
                        items = plan[k]
                        removed_any = changed = True
                        break
                    if not budget():
                        break
                if not removed_any:
                    if size == 1:
                        break
                    n = min(len(items), n * 2)
        if hasattr(mod, "shrink_candidates"):
            for cand in mod.shrink_candidates(plan):
                if not budget():
                    break
                if ok(cand):
                    plan = cand
                    changed = True
    return plan, runs, True


# ------------------------------------------------------------------ known findings
def load_known():
    try:
        with open(KNOWN_FILE, encoding="utf-8") as f:
            return json.load(f)
    except FileNotFoundError:
        return {"findings": [], "fixed": []}


def known_match(pid: str, sig: str):
    for e in load_known().get("findings", []):
        if e.get("property") == pid and e.get("signature") == sig:
            return e
    return None


# ------------------------------------------------------------------ replay
def replay_file(path: str) -> int:
    with open(path, encoding="utf-8") as f:
        rp = json.load(f)
    pid = rp["property"]
    mod = load_prop(pid)
    plan = rp["plan"]
    plan["replay"] = True
    for h in rp.get("history") or []:
        # the violation shows only after these runs were executed in the same process (state carried between instances);
        # they run as they were generated (their fault decisions are drawn from their seeds, as in the batch)
        run_one(mod, h)
    res = run_one(mod, plan)
    want = rp["expect"]["signature"]
    got = [sig_of(v) for v in res["violations"]]
    if res.get("error"):
        print("HARNESS-ERROR during replay:\n" + res["error"])
        return 2
    if want in got:
        v = next(v for v in res["violations"] if sig_of(v) == want)
        print(f"replayed: {want}\n  detail: {v.get('detail')}\n  digest: {res.get('digest')}")
        print(f"VIOLATION property={pid} replay={path}")
        return 1
    print(f"replay did not reproduce {want}; got {got}")
    return 0


def _fresh_replay_ok(path: str) -> bool:
    env = dict(os.environ)
    env["PYTHONHASHSEED"] = "0"
    p = subprocess.run([sys.executable, os.path.join(ROOT, "check"), "--replay", path],
                       capture_output=True, text=True, env=env, timeout=300, check=False)
    return p.returncode == 1 and "VIOLATION" in p.stdout


def trace_file(path: str) -> int:
    """Print the decoded event log of a replay file (debugging aid)."""
    from . import wire as W
    os.environ["VERIF_TRACE"] = "1"
    with open(path, encoding="utf-8") as f:
        rp = json.load(f)
    mod = load_prop(rp["property"])
    plan = rp["plan"]
    plan["replay"] = True
    res = run_one(mod, plan)
    for (n, t, it, kind, actor, detail) in res.get("events", []):
        d = detail
        if kind in ("udp_out", "udp_in", "tcp_out", "tcp_in") and isinstance(detail, str):
            try:
                raw = bytes.fromhex(detail)
                h = W.parse_header(raw)
                if h:
                    d = f"{W.SVC_NAMES.get(h[0], hex(h[0]))} {raw[6:].hex()}"
            except ValueError:
                pass
        print(f"{n:5d} {t:12.6f} it={it:<6d} {kind:12s} {actor!s:40s} {d}")
    print("violations:", res["violations"])
    print("error:", res.get("error"))
    return 0


# ------------------------------------------------------------------ check driver
def check(pid: str, tier: str, master: int) -> int:
    mod = load_prop(pid)
    n_runs = int(os.environ.get("VERIF_RUNS", "0")) or mod.RUNS[tier]
    budget = float(os.environ.get("VERIF_BUDGET", "0")) or getattr(mod, "BUDGET", {}).get(tier)
    t0 = time.time()
    if hasattr(mod, "preflight"):
        err = mod.preflight()
        if err:
            print(f"HARNESS-ERROR property={pid} preflight: {err}")
            return 2
    merged = run_batch(pid, master, tier, n_runs, budget)
    os.makedirs(EVIDENCE_DIR, exist_ok=True)
    os.makedirs(REPLAY_DIR, exist_ok=True)
    new_viol = []
    known_hit = []
    for s in sorted(merged["viol"]):
        slot = merged["viol"][s]
        k = known_match(pid, s)
        if k is not None:
            known_hit.append({"signature": s, "count": slot["count"], "what": k.get("what", "")})
            print(f"KNOWN-FINDING: property={pid} {s} :: {k.get('what', '')} (hit in {slot['count']} runs)")
            continue
        first = slot["first"]
        plan_min, mruns, reproduced = minimise(mod, first["plan"], s)
        history: list = []
        if not reproduced and first.get("chunk_lo") is not None and first["index"] > first["chunk_lo"]:
            # alone, in a pristine process, the run is clean: the violation depends on the runs executed before it in the
            # same process - the code under test carries state from one system instance to the next. Rebuild that history
            # (the chunk's earlier runs, in order) and reduce it.
            preds = []
            for j in range(first["chunk_lo"], first["index"]):
                sd = seed_for(master, pid, j)
                pl = mod.gen_index(j, sd, tier) if hasattr(mod, "gen_index") else mod.gen(sd, tier)
                pl.setdefault("seed", sd)
                preds.append(json.loads(json.dumps(pl, default=str)))
            plan0 = json.loads(json.dumps(first["plan"], default=str))
            plan0["replay"] = True
            if _still_fails(mod, plan0, s, preds):
                history = minimise_history(mod, preds, plan0, s)
                plan_min, mruns2, reproduced = minimise(mod, plan0, s, history=history)
                mruns += mruns2
        path = os.path.join(REPLAY_DIR, f"{pid}-{first['seed']}-{hashlib.sha1(s.encode()).hexdigest()[:8]}.json")
        with open(path, "w", encoding="utf-8") as f:
            json.dump({"format": 1, "property": pid, "seed": first["seed"], "index": first["index"],
                       "master_seed": master, "tier": tier,
                       "expect": {"clause": first["violation"]["clause"], "signature": s},
                       "detail": first["violation"].get("detail"),
                       "minimise": {"runs": mruns, "reproduced_in_process": reproduced},
                       "history": history,
                       "plan": plan_min}, f, indent=1, sort_keys=True, default=str)
        fresh = _fresh_replay_ok(path) if reproduced else False
        detail = first["violation"].get("detail")
        if history:
            detail = (f"[only after {len(history)} earlier run(s) in the same process - state is carried from one system "
                      f"instance to the next; they are part of the replay file] {detail}")
        new_viol.append({"signature": s, "count": slot["count"], "replay": path,
                         "fresh_replay_reproduces": fresh, "detail": detail})
    wall = time.time() - t0
    runs = merged["runs"]
    rph = int(runs / max(wall, 1e-6) * 3600)
    ev = {
        "property_id": pid,
        "tier": tier,
        "seed": master,
        "level": mod.LEVEL,
        "coverage": {
            "evaluations": runs,
            "distinct_nontrivial": len(merged["nontrivial_traces"]),
            "rule": mod.RULE,
            "samples": merged["samples"][:3],
            "distinct_traces": len(merged["traces"]),
            "seeds": {"derivation": "sha256(f'{VERIF_SEED}/{property}/{i}')[:6] for i in range(evaluations)",
                      "first_index": 0, "last_index": n_runs - 1},
            "runs_per_hour": rph,
            "sim_seconds": round(merged["sim_s"], 3),
            "faults_fired": dict(sorted(merged["faults"].items())),
            "probes": dict(sorted(merged["probes"].items())),
            "tier_runs": dict(merged["tiers"]),
            "real_components": getattr(mod, "REAL", []),
            "stub_components": getattr(mod, "STUB", []),
            "exhaustive_subspaces": getattr(mod, "EXHAUSTIVE", []),
            "exhaustive": bool(getattr(mod, "IS_EXHAUSTIVE", False)),
            "known_findings_hit": known_hit,
            "new_violations": new_viol,
            "harness_errors": len(merged["errors"]),
            "harness_error_samples": merged["errors"][:3],
            "skipped_chunks": merged["skipped_chunks"],
            "processes": NPROC,
        },
        "assumptions": getattr(mod, "ASSUMPTIONS", []),
        "wall_s": round(wall, 3),
        "violations": len(new_viol),
    }
    with open(os.path.join(EVIDENCE_DIR, f"{pid}.json"), "w", encoding="utf-8") as f:
        json.dump(ev, f, indent=1, default=str)
    print(f"{pid} tier={tier} seed={master} runs={runs} distinct_nontrivial={len(merged['nontrivial_traces'])} "
          f"sim_s={merged['sim_s']:.0f} wall={wall:.1f}s runs/h={rph} faults={dict(merged['faults'])} "
          f"errors={len(merged['errors'])}")
    if merged["errors"]:
        print("HARNESS-ERRORS (first):", merged["errors"][0]["error"])
    for v in new_viol:
        if not v["fresh_replay_reproduces"]:
            print(f"HARNESS-ERROR property={pid} replay {v['replay']} did not reproduce in a fresh interpreter: {v['signature']}")
    rc = 0
    for v in new_viol:
        if v["fresh_replay_reproduces"]:
            print(f"  violation {v['signature']} in {v['count']} runs: {v['detail']}")
            print(f"VIOLATION property={pid} replay={v['replay']}")
            rc = 1
    if rc == 0 and (any(not v["fresh_replay_reproduces"] for v in new_viol)):
        return 2
    if rc == 0 and merged["errors"] and len(merged["errors"]) > max(1, runs // 50):
        return 2
    if rc == 0 and runs == 0:
        return 2
    return rc
