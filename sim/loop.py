"""Virtual-time asyncio event loop.

`SimLoop` keeps CPython's own `BaseEventLoop._run_once` (ready-queue FIFO, timer
heap, task stepping) and replaces only the two things that touch the outside
world: the clock and the "selector".  `select()` is the scheduler's decision
point: it hands back the external events (network deliveries, peer actions,
user calls) that are due in this iteration and, when nothing is runnable,
jumps the clock to the earlier of the next asyncio timer and the next external
event.  No real socket, thread, sleep or clock is ever used.
"""

from __future__ import annotations

import asyncio
from asyncio import base_events, events
import heapq
from typing import Any, Callable


class SimDeadlock(Exception):
    """Nothing runnable, no timer and no external event: the run cannot progress."""


class SimBudgetExceeded(Exception):
    """Iteration or virtual-time cap reached (harness outcome, never a verdict)."""


class _ExtEvent:
    __slots__ = ("when", "min_iter", "seq", "fn", "sock", "cancelled", "label")

    def __init__(self, when, min_iter, seq, fn, sock, label):
        self.when = when
        self.min_iter = min_iter
        self.seq = seq
        self.fn = fn
        self.sock = sock
        self.cancelled = False
        self.label = label

    def __lt__(self, other):
        return (self.when, self.seq) < (other.when, other.seq)

    def cancel(self):
        self.cancelled = True


class _Selector:
    """Stands where a real selector would; owned by the loop."""

    def __init__(self, loop: "SimLoop") -> None:
        self.loop = loop

    def select(self, timeout):
        return self.loop._sim_select(timeout)

    def close(self):
        pass

    def get_map(self):
        return {}


class SimLoop(base_events.BaseEventLoop):
    """Deterministic virtual-time loop."""

    def __init__(self, start: float = 1000.0, *, batch: int = 1,
                 max_iterations: int = 2_000_000, max_time: float | None = None) -> None:
        super().__init__()
        self._now = float(start)
        self._start = float(start)
        self._clock_resolution = 1e-9
        self._selector = _Selector(self)
        self._ext: list[_ExtEvent] = []
        self._ext_seq = 0
        self.iteration = 0
        # number of events one "socket" may deliver per iteration (1 = selector loop)
        self.batch = batch
        self.max_iterations = max_iterations
        self.max_time = max_time
        self.net = None  # set by SimNet
        self.escapes: list[dict[str, Any]] = []
        self.unretrieved: list[str] = []
        self.set_exception_handler(self._sim_exception_handler)
        self._task_counter = 0
        self.set_task_factory(self._sim_task_factory)
        # stall of the process under test (see stall())
        self._stall_until = 0.0
        self._stall_k = 0
        self.client_labels = {"tcp_s2c", "tcp_lost", "udp_c", "udp_c_dup", "op", "sample", "readd", "cross", "tg"}

    # -- deterministic task names (default names use a process-global counter)
    def _sim_task_factory(self, loop, coro, **kwargs):
        self._task_counter += 1
        if kwargs.get("name") is None:
            kwargs["name"] = f"simtask-{self._task_counter}"
        return asyncio.Task(coro, loop=loop, **kwargs)

    # -- clock
    def time(self) -> float:
        return self._now

    @property
    def elapsed(self) -> float:
        return self._now - self._start

    # -- stall: the process that owns this loop makes no progress for `d` seconds
    def stall(self, d: float) -> float:
        """Slow / stalled node (a blocking call in a callback, a GC pause, a suspended VM): the timers of the process under test
        and the I/O and user events addressed to it are served only when the pause ends - all of them then, in their
        original order - while its peers (events not labelled as client-side) go on as scheduled.  Returns the end time."""
        end = max(self._stall_until, self._now + d)
        self._stall_until = end
        moved = sorted((h for h in self._scheduled if h._when < end and not h._cancelled), key=lambda h: h._when)
        for h in moved:
            self._stall_k += 1
            h._when = end + self._stall_k * 1e-12
        heapq.heapify(self._scheduled)
        touched = False
        for ev in self._ext:
            if ev.label in self.client_labels and ev.when < end and not ev.cancelled:
                ev.when = end
                touched = True
        if touched:
            heapq.heapify(self._ext)
        return end

    def call_at(self, when, callback, *args, context=None):
        if when < self._stall_until and self._now < self._stall_until:
            # a timer armed by code that still ran in the iteration the stall began in
            self._stall_k += 1
            when = self._stall_until + self._stall_k * 1e-12
        return super().call_at(when, callback, *args, context=context)

    # -- external events
    def at(self, when: float, fn: Callable[[], None], *, sock: Any = None,
           iters: int = 0, label: str = "") -> _ExtEvent:
        """Run `fn` as an I/O-style event at virtual time `when` (not before)."""
        if when < self._now:
            when = self._now
        if when < self._stall_until and label in self.client_labels:
            when = self._stall_until
        self._ext_seq += 1
        ev = _ExtEvent(when, self.iteration + iters, self._ext_seq, fn, sock, label)
        heapq.heappush(self._ext, ev)
        return ev

    def after(self, delay: float, fn: Callable[[], None], **kw) -> _ExtEvent:
        return self.at(self._now + max(0.0, delay), fn, **kw)

    def soon_iters(self, iters: int, fn: Callable[[], None], **kw) -> _ExtEvent:
        """Same virtual instant, `iters` loop iterations from now (trigger-relative)."""
        return self.at(self._now, fn, iters=iters, **kw)

    def pending_external(self) -> int:
        return sum(1 for e in self._ext if not e.cancelled)

    # -- selector replacement
    def _sim_select(self, timeout):
        self.iteration += 1
        if self.iteration > self.max_iterations:
            raise SimBudgetExceeded(f"iterations>{self.max_iterations}")
        ext = self._ext
        while ext and ext[0].cancelled:
            heapq.heappop(ext)
        if timeout is None or timeout > 0:
            # nothing ready: jump the clock
            t_timer = self._scheduled[0]._when if self._scheduled else None
            t_ext = None
            if ext:
                # earliest event that may run (min_iter always satisfied once we idle:
                # idling iterations advance the counter as well)
                t_ext = ext[0].when
            if t_timer is None and t_ext is None:
                raise SimDeadlock("no runnable task, timer or external event")
            target = t_timer if t_ext is None else (t_ext if t_timer is None else min(t_timer, t_ext))
            if target > self._now:
                self._now = target
            if self.max_time is not None and self._now - self._start > self.max_time:
                raise SimBudgetExceeded(f"virtual time>{self.max_time}")
        # collect due events
        due: list[_ExtEvent] = []
        if ext and ext[0].when <= self._now:
            held: list[_ExtEvent] = []
            per_sock: dict[int, int] = {}
            while ext and ext[0].when <= self._now:
                ev = heapq.heappop(ext)
                if ev.cancelled:
                    continue
                if ev.min_iter > self.iteration:
                    held.append(ev)
                    continue
                if ev.sock is not None:
                    k = id(ev.sock)
                    n = per_sock.get(k, 0)
                    if n >= self.batch:
                        held.append(ev)
                        continue
                    per_sock[k] = n + 1
                due.append(ev)
            for ev in held:
                heapq.heappush(ext, ev)
        return due

    def _process_events(self, event_list):
        for ev in event_list:
            # exactly where a selector loop puts reader callbacks
            self._ready.append(events.Handle(self._run_ext, (ev,), self))

    def _run_ext(self, ev: _ExtEvent):
        if not ev.cancelled:
            ev.fn()

    def _write_to_self(self):
        pass

    # -- exception handler: classify
    def _sim_exception_handler(self, loop, context):
        msg = context.get("message", "")
        exc = context.get("exception")
        if "never retrieved" in msg:
            self.unretrieved.append(f"{msg}: {type(exc).__name__}")
            return
        self.escapes.append({"message": msg, "exception": exc,
                             "type": type(exc).__name__ if exc else None})

    # -- network entry points (delegated to SimNet)
    async def create_datagram_endpoint(self, protocol_factory, local_addr=None,
                                       remote_addr=None, *, sock=None, **kw):
        if self.net is None:
            raise OSError("no simulated network")
        # a real loop suspends at least once here (waiter future of the transport)
        await asyncio.sleep(0)
        return self.net.create_datagram_endpoint(protocol_factory, local_addr, remote_addr, sock)

    async def create_connection(self, protocol_factory, host=None, port=None, **kw):
        if self.net is None:
            raise OSError("no simulated network")
        return await self.net.create_connection(protocol_factory, host, port)

    async def getaddrinfo(self, host, port, **kw):
        raise OSError("getaddrinfo not simulated")

    def run_in_executor(self, executor, func, *args):
        fut = self.create_future()
        try:
            fut.set_result(func(*args))
        except Exception as exc:  # pylint: disable=broad-except
            fut.set_exception(exc)
        return fut

    def add_signal_handler(self, *a, **k):
        raise NotImplementedError

    # -- helpers
    def run_sim(self, coro):
        """Run `coro` to completion; always leaves the loop closed-able."""
        asyncio.set_event_loop(None)
        try:
            return self.run_until_complete(coro)
        finally:
            self._cleanup()

    def _cleanup(self):
        # cancel leftovers quietly so that nothing survives into the next run
        try:
            pending = [t for t in asyncio.all_tasks(self) if not t.done()]
            for t in pending:
                t.cancel()
            if pending:
                self._ext.clear()
                saved = self.max_iterations
                self.max_iterations = self.iteration + 10_000
                try:
                    self.run_until_complete(asyncio.gather(*pending, return_exceptions=True))
                except (SimDeadlock, SimBudgetExceeded, RuntimeError):
                    pass
                self.max_iterations = saved
        finally:
            self._ext.clear()
            self._ready.clear()
            self._scheduled.clear()
            if not self.is_closed():
                try:
                    self.close()
                except RuntimeError:
                    pass
