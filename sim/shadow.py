"""Shadow instances: a second, independent instance of the system under test living in the same process, on the same
simulated network, next to the instance a world judges.

Its only purpose is to exist and be busy.  Whatever the code under test keeps per object must stay per object: a
sequence counter, a heartbeat's failure count, a reassembly buffer, a cache keyed by something both instances have in
common (channel id 1, session id 1, the same group address, a task name) - kept at class or module level instead, the
shadow's activity reaches the judged instance and shows up in that instance's own oracle.  The shadow itself is not
judged; its traffic uses its own client address (`SHADOW_IP`), so oracles that read the event log by client address do
not see it.
"""

from __future__ import annotations

import asyncio
import random
from typing import Any

from . import wire as W
from .gateway import SimGateway

SHADOW_IP = "10.0.0.9"          # second interface of the client host
SHADOW_GW_IP = "10.0.0.77"
GA_SH = W.ga(9, 0, 1)


async def udp_tunnel_life(R, *, horizon: float, seed: int, first_channel: int = 1, period: float = 0.4,
                          start_after: float = 0.0, reconnects: int = 1) -> None:
    """Connect a second UDPTunnel (own XKNX object) to a second gateway and keep both directions busy until `horizon`."""
    from xknx import XKNX
    from xknx.cemi import CEMIFrame
    from xknx.exceptions import CommunicationError
    from xknx.io.tunnel import UDPTunnel

    loop, net = R.loop, R.net
    rng = random.Random(seed ^ 0x5AD0)
    gw = SimGateway(net, ip=SHADOW_GW_IP, script={"first_channel": first_channel}, tcp=False)
    xknx = XKNX()
    got: list[bytes] = []
    tunnel = UDPTunnel(xknx, cemi_received_callback=got.append, gateway_ip=gw.ip, gateway_port=gw.port,
                       local_ip=SHADOW_IP, local_port=0, route_back=False, auto_reconnect=True, auto_reconnect_wait=1)
    t_end = loop.time() + horizon
    if start_after:
        await asyncio.sleep(start_after)
    try:
        await tunnel.connect()
    except CommunicationError:
        return
    R.extra_faults["shadow_tunnel_alive"] += 1
    tx = {"cid": None, "n": 0}
    pid = 0
    t_reconnect = sorted(rng.uniform(loop.time(), max(loop.time() + 0.1, t_end - 1.0)) for _ in range(reconnects))
    try:
        while loop.time() < t_end:
            await asyncio.sleep(period * rng.choice([0.5, 1.0, 1.0, 2.0]))
            if t_reconnect and loop.time() >= t_reconnect[0]:
                t_reconnect.pop(0)
                gw.server_disconnect(gw.last_cid)
                R.extra_faults["shadow_tunnel_reconnects"] += 1
                await asyncio.sleep(1.5)
                continue
            cid = gw.last_cid
            ch = gw.channels.get(cid)
            if ch is None:
                continue
            if tx["cid"] != cid:
                tx["cid"], tx["n"] = cid, 0
            pid += 1
            if rng.random() < 0.5:
                # the shadow's gateway sends it a frame (its incoming counter moves)
                cemi = W.cemi_ldata(W.L_DATA_IND, 0x1103, GA_SH, tpci_apci=W.gv_write(pid.to_bytes(2, "big")))
                gw.sock.sendto(W.tunnelling_request(cid, tx["n"], cemi), ch.data, nofault=True)
                tx["n"] = (tx["n"] + 1) & 0xFF
            else:
                # the shadow sends a frame (its outgoing counter moves)
                raw = W.cemi_ldata(W.L_DATA_REQ, 0, GA_SH, tpci_apci=W.gv_write(pid.to_bytes(2, "big")))
                try:
                    await tunnel.send_cemi(CEMIFrame.from_knx(raw))
                except CommunicationError:
                    pass
    finally:
        try:
            await tunnel.disconnect()
        except CommunicationError:
            pass


def start(R, coro) -> asyncio.Task:
    return R.loop.create_task(coro)


async def finish(task: asyncio.Task | None) -> None:
    if task is None:
        return
    if not task.done():
        try:
            await asyncio.wait_for(task, 30.0)
        except (TimeoutError, asyncio.CancelledError):
            pass
    if not task.done():
        task.cancel()
    await asyncio.gather(task, return_exceptions=True)
