"""Determinism self-test: same seed => identical event-log digest,
twice in one process, in a fresh interpreter, and under another PYTHONHASHSEED."""

from __future__ import annotations

import json
import os
import subprocess
import sys

from . import harness


def digests(pid: str, n: int, master: int = 12345) -> list[str]:
    mod = harness.load_prop(pid)
    out = []
    for i in range(n):
        sd = harness.seed_for(master, pid, i)
        plan = mod.gen_index(i, sd, "quick") if hasattr(mod, "gen_index") else mod.gen(sd, "quick")
        res = harness.run_one(mod, plan)
        out.append(res["digest"] + "|" + ",".join(sorted(harness.sig_of(v) for v in res["violations"]))
                   + "|" + (res.get("error") or "")[:40])
    return out


def main(argv) -> int:
    if argv and argv[0] == "--emit":
        pid, n = argv[1], int(argv[2])
        print(json.dumps(digests(pid, n)))
        return 0
    n = int(os.environ.get("VERIF_SELFTEST_N", "150"))
    props_dir = os.path.join(harness.ROOT, "props")
    ids = [a.upper() for a in argv] or sorted(
        f[:-3].upper() for f in os.listdir(props_dir) if f.startswith("c") and f.endswith(".py"))
    bad = 0
    for pid in ids:
        a = digests(pid, n)
        b = digests(pid, n)
        same_proc = a == b
        res = {}
        for hs in ("0", "4242"):
            env = dict(os.environ)
            env["PYTHONHASHSEED"] = hs
            p = subprocess.run([sys.executable, os.path.join(harness.ROOT, "check"), "--selftest", "--emit", pid, str(n)],
                               capture_output=True, text=True, env=env, timeout=1800, check=False)
            try:
                res[hs] = json.loads(p.stdout.strip().splitlines()[-1]) == a
            except Exception:  # pylint: disable=broad-except
                res[hs] = False
                print(p.stderr[-500:])
        ok = same_proc and all(res.values())
        print(f"selftest {pid}: n={n} same-process={same_proc} fresh(hashseed=0)={res['0']} fresh(hashseed=4242)={res['4242']} "
              f"{'OK' if ok else 'NONDETERMINISTIC'}")
        if not ok:
            bad += 1
            if not same_proc:
                for i, (x, y) in enumerate(zip(a, b)):
                    if x != y:
                        print("  first divergence at index", i)
                        break
    return 1 if bad else 0
