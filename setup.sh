#!/bin/sh
# Offline setup: xknx is an editable install of /repo in /venv and hypothesis is present;
# nothing to build. Verify the toolchain and the kernel import.
set -e
cd "$(dirname "$0")"
mkdir -p evidence replays
PYTHONHASHSEED=0 /venv/bin/python -c "import sys; sys.path.insert(0,'.'); import xknx, cryptography; from sim import loop, net, seams, wire, harness; print('setup ok', xknx.__file__)"
