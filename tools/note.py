#!/usr/bin/env python3
"""usage: tools/note.py NAME 'first violation line' 'strengthened note'  - record how a seeded change missed at first is caught now"""
import json, sys
name, viol, note = sys.argv[1:4]
p = f"/verif/seeded/{name}/meta.json"
m = json.load(open(p))
cid = name[:3]
for c in m.get("checks", []):
    if c["check"] == cid:
        c["exit"] = 1
        c["first_violation"] = viol
m["strengthened"] = note
json.dump(m, open(p, "w"), indent=1)
print("ok", name)
