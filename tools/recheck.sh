#!/bin/sh
# usage: tools/recheck.sh <NAME e.g. C18c> [CHECK-ID ...]  - run checks against seeded/<NAME>/patch.diff in a scratch worktree (no demo, no suite)
N=$1; shift; IDS=${@:-$(echo $N | cut -c1-3)}
V=$(cd "$(dirname "$0")/.." && pwd); EV=/tmp/ev/rc_$N
mkdir -p /tmp/ev
git -C /repo worktree remove --force $EV 2>/dev/null
git -C /repo worktree add -q --detach $EV HEAD || exit 2
(cd $EV && git apply $V/seeded/$N/patch.diff) || { echo "PATCH DOES NOT APPLY"; git -C /repo worktree remove --force $EV; exit 2; }
for c in $IDS; do
  out=$(cd $V && PYTHONPATH=$EV VERIF_EVIDENCE_DIR=/tmp/ev/evidence_rc_$N ./check $c 2>&1); code=$?
  echo "check $c exit=$code"; echo "$out" | grep -E "^  violation|tier=" | cut -c1-300 | head -6
done
git -C /repo worktree remove --force $EV; rm -rf /tmp/ev/evidence_rc_$N
find $V/replays -type f -newer $V/tools/recheck.sh -delete 2>/dev/null
