#!/bin/sh
# usage: tools/eval_batch.sh NAME... - save the agents' side findings (suspect.*) to /tmp/suspects, then evaluate each change
mkdir -p /tmp/suspects
for n in "$@"; do
  cp /tmp/wt/$n/_seeded/suspect.md /tmp/suspects/$n.md 2>/dev/null
  cp /tmp/wt/$n/_seeded/suspect_demo.py /tmp/suspects/${n}_demo.py 2>/dev/null
  echo "== $n"
  "$(dirname "$0")/eval_one.sh" $n 2>&1 | grep -E "demo without|check C|violation|DOES NOT" | cut -c1-260
done
