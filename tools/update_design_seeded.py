#!/usr/bin/env python3
import subprocess, re, os
root = os.path.join(os.path.dirname(os.path.abspath(__file__)), "..")
table = subprocess.run(["python3", os.path.join(root, "tools", "seeded_table.py")], capture_output=True, text=True, check=True).stdout
p = os.path.join(root, "DESIGN.md")
s = open(p).read()
head = """### 0.5 Independently seeded breaking changes

Each change below was written by a fresh sub-agent that was given only the text of one property and its own
scratch git worktree of `/repo` (nothing from `/verif`), and asked for a small change that breaks the
property while the package still imports and the unedited suite still passes, and that needs something
specific (an interleaving, a fault at one point, a multi-step history, an unusual input) to manifest.  I kept
a change only after confirming in a fresh scratch worktree (`tools/eval_seeded.sh`) that its demonstration
passes without and fails with the change and that the suite result is unchanged (2 pre-existing failures,
3893 passed).  The checks were then run against the changed tree.  While a background soak was using
`/repo`, this was done by pointing `PYTHONPATH` at the scratch worktree with the patch applied
(`tools/eval_seeded.sh`; same code the checks would see after `git -C /repo apply`, `/repo` untouched);
nothing was ever committed to `/repo`, and evidence files are not written by these runs
(`VERIF_EVIDENCE_DIR`).  `seeded/<name>/` holds `patch.diff`, the demonstration and `meta.json` (property,
what it needs to manifest, what the author ran, what I ran, what each check reported).

"""
tail = """
Where a check missed or barely caught a change it was strengthened (last column) and re-run; a strengthened
check was always re-run on the unchanged tree as well (exit 0, no VIOLATION).

"""
new = head + table + tail
s2 = re.sub(r"### 0\.5 Independently seeded breaking changes\n.*?(?=\n-{20,}\n)", lambda m: new, s, count=1, flags=re.S)
assert s2 != s or new in s
open(p, "w").write(s2)
