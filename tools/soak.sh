#!/bin/sh
# soak: every check at N x its quick size under several master seeds; prints only non-clean results
cd "$(dirname "$0")/.."
MULT=${1:-10}; SEEDS=${2:-"1 2 3"}
IDS=$(python3 -c "import json;print(' '.join(c['property_id'] for c in json.load(open('MANIFEST.json'))['checks']))")
for seed in $SEEDS; do
  for id in $IDS; do
    n=$(PYTHONHASHSEED=0 /venv/bin/python -c "import sys;sys.path.insert(0,'.');from sim import harness;print(harness.load_prop('$id').RUNS['quick']*$MULT)")
    out=$(VERIF_SEED=$seed VERIF_RUNS=$n VERIF_BUDGET=3000 ./check $id 2>&1); code=$?
    echo "seed=$seed $id exit=$code $(echo "$out" | grep -E "^$id tier" | cut -c1-110)"
    echo "$out" | grep -E "VIOLATION|violation|HARNESS" | cut -c1-300
  done
done
