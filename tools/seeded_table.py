#!/usr/bin/env python3
"""Print the DESIGN.md 0.5 table from seeded/*/meta.json."""
import glob, json, os
rows = []
for p in sorted(glob.glob(os.path.join(os.path.dirname(__file__), "..", "seeded", "*", "meta.json"))):
    m = json.load(open(p))
    if m.get("kind") == "refactor":
        continue
    name = os.path.basename(os.path.dirname(p))
    summ = (m.get("summary") or "").replace("|", "/").replace("\n", " ")
    summ = summ[:230] + ("…" if len(summ) > 230 else "")
    chk = []
    for c in m.get("checks", []):
        first = (c.get("first_violation") or "").strip()
        sig = first.split(" in ")[0].replace("violation ", "") if first else ""
        chk.append(f"`{c['check']}` " + ("**caught** (" + sig.replace("|", " / ") + ")" if c["exit"] == 1 else "silent"))
    note = " ".join(x for x in (m.get("strengthened", ""), m.get("rebased", ""),
                                ("RETIRED: " + m["retired"]) if m.get("retired") else "") if x)
    rows.append(f"| {name} | {summ} | {'; '.join(chk)} | {note} |")
print("| change | what it does (author's summary, shortened) | quick checks run against it | strengthened? |")
print("|---|---|---|---|")
print("\n".join(rows))

# ---- behaviour-preserving refactorings (the checks must stay silent)
rf = []
for p in sorted(glob.glob(os.path.join(os.path.dirname(__file__), "..", "seeded", "*", "meta.json"))):
    m = json.load(open(p))
    if m.get("kind") != "refactor":
        continue
    name = os.path.basename(os.path.dirname(p))
    summ = (m.get("summary") or "").replace("|", "/").replace("\n", " ")
    summ = summ[:260] + ("…" if len(summ) > 260 else "")
    loud = [c["check"] for c in m.get("checks", []) if c["exit"] != 0 or c.get("errors") not in ("0", 0)]
    rf.append(f"| {name} | {m.get('file', '')} | {summ} | {'all ' + str(len(m.get('checks', []))) + ' checks silent' if not loud else 'NOT silent: ' + ', '.join(loud)} | {' '.join(x for x in (m.get('note', ''), ('RETIRED: ' + m['retired']) if m.get('retired') else '') if x)} |")
if rf:
    print()
    print("| refactoring | file(s) | what was restructured (author's summary, shortened) | checks | note |")
    print("|---|---|---|---|---|")
    print("\n".join(rf))
