#!/bin/sh
# Run every registered quick (or thorough) check against /repo and validate the evidence files.
# usage: tools/run_all.sh [quick|thorough] [ID ...]
cd "$(dirname "$0")/.."
TIER=${1:-quick}; [ $# -gt 0 ] && shift
IDS="$@"
[ -z "$IDS" ] && IDS=$(python3 -c "import json;print(' '.join(c['property_id'] for c in json.load(open('MANIFEST.json'))['checks']))")
rc=0
for id in $IDS; do
  s=$(date +%s)
  out=$(./check $id --tier $TIER 2>&1); code=$?
  e=$(date +%s)
  echo "$id exit=$code $((e-s))s :: $(echo "$out" | grep -E "^$id tier" | cut -c1-150)"
  echo "$out" | grep -E "VIOLATION|KNOWN-FINDING|HARNESS" | cut -c1-220
  [ $code -ne 0 ] && rc=1
done
python3-vt - <<'P'
import json, glob, jsonschema
sch = json.load(open('/root/.vp/EVIDENCE.schema.json'))
bad = 0
for f in sorted(glob.glob('evidence/*.json')):
    try:
        jsonschema.validate(json.load(open(f)), sch)
    except Exception as e:
        bad += 1; print("INVALID", f, str(e)[:200])
print("evidence files valid" if not bad else f"{bad} invalid evidence files")
jsonschema.validate(json.load(open('MANIFEST.json')), json.load(open('/root/.vp/MANIFEST.schema.json')))
print("manifest valid")
P
exit $rc
