#!/bin/sh
# usage: tools/eval_one.sh <NAME e.g. C18c>  - evaluate the sub-agent's change in /tmp/wt/<NAME>/_seeded, then remove its worktree
N=$1; ID=$(echo $N | cut -c1-3); shift
V=$(cd "$(dirname "$0")/.." && pwd)
[ -f /tmp/wt/$N/_seeded/patch.diff ] || { echo "no patch for $N"; exit 2; }
SEEDED_NAME=$N SEEDED_WT=/tmp/wt/$N $V/tools/eval_seeded.sh $ID /tmp/wt/$N/_seeded "$@" 2>&1 | tee /tmp/ev/$N.eval.out
git -C /repo worktree remove --force /tmp/wt/$N 2>/dev/null
