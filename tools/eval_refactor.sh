#!/bin/sh
# usage: tools/eval_refactor.sh <NAME> <dir-with-patch.diff+meta.json> ['<check ids>']
# A behaviour-preserving refactoring written by a sub-agent: every check must stay silent on it (exit 0, no VIOLATION,
# no harness error).  Scratch worktree + PYTHONPATH as in eval_seeded.sh; /repo is not touched.
N=$1; SRC=$2
V=$(cd "$(dirname "$0")/.." && pwd)
DST=$V/seeded/$N; EV=/tmp/ev/$N
mkdir -p $DST /tmp/ev
[ "$SRC" != "$DST" ] && cp $SRC/patch.diff $SRC/meta.json $DST/ 2>/dev/null
RET=$(python3 -c "import json;print(json.load(open('$DST/meta.json')).get('retired',''))" 2>/dev/null)
[ -n "$RET" ] && { echo "RETIRED: $RET"; exit 0; }
git -C /repo worktree remove --force $EV 2>/dev/null
git -C /repo worktree add -q --detach $EV HEAD || exit 2
(cd $EV && git apply $DST/patch.diff) || { echo "PATCH DOES NOT APPLY"; git -C /repo worktree remove --force $EV; exit 2; }
tests=$(cd $EV && timeout 1500 /venv/bin/python -m pytest -q -p no:cacheprovider --timeout=900 2>&1 | tail -1)
echo "suite with refactoring: $tests"
# optional third argument: the checks to run (default: all claimed ones)
IDS=${3:-$(python3 -c "import json;print(' '.join(c['property_id'] for c in json.load(open('$V/MANIFEST.json'))['checks']))")}
res=""
for c in $IDS; do
  out=$(cd $V && PYTHONPATH=$EV VERIF_EVIDENCE_DIR=/tmp/ev/evidence_$N ./check $c 2>&1); code=$?
  errs=$(echo "$out" | grep -E "^$c tier" | sed -E 's/.*errors=([0-9]+).*/\1/')
  bad=$(echo "$out" | grep -E "^  violation|HARNESS" | head -2 | cut -c1-200)
  [ "$code" != "0" -o "$errs" != "0" ] && { echo "check $c exit=$code errors=$errs"; echo "$bad"; }
  res="$res{\"check\": \"$c\", \"exit\": $code, \"errors\": \"$errs\", \"first\": $(echo "$bad" | head -1 | python3 -c 'import json,sys;print(json.dumps(sys.stdin.read().strip()))')},"
done
python3 - <<P
import json
p="$DST/meta.json"
try: m=json.load(open(p))
except Exception: m={}
m["kind"]="refactor"
m["verified_here"]={"suite_with_change": "$tests".strip(), "how": "fresh scratch worktree of /repo HEAD, patch applied, all checks run with PYTHONPATH pointing at it"}
m["checks"]=json.loads("[" + '''$res'''.rstrip(",") + "]")
m["silent"]=all(c["exit"]==0 and c["errors"]=="0" for c in m["checks"])
json.dump(m, open(p,"w"), indent=1)
print("ALL SILENT" if m["silent"] else "NOT SILENT: "+", ".join(c["check"] for c in m["checks"] if c["exit"]!=0 or c["errors"]!="0"))
P
git -C /repo worktree remove --force $EV
rm -rf /tmp/ev/evidence_$N
find $V/replays -type f -delete 2>/dev/null
