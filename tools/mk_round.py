#!/usr/bin/env python3
"""usage: tools/mk_round.py <suffix> '<focus text>' [IDs...] - write /tmp/props/<ID>.txt, /tmp/props/prompt_<ID><suffix>.txt and create
the scratch worktrees /tmp/wt/<ID><suffix> for a round of independently seeded changes (see DESIGN 0.5)."""
import json, os, subprocess, sys
V = os.path.dirname(os.path.dirname(os.path.abspath(__file__)))
suffix, focus, ids = sys.argv[1], sys.argv[2], sys.argv[3:]
man = json.load(open(os.path.join(V, "MANIFEST.json")))
claimed = [c["property_id"] for c in man["checks"]]
ids = ids or claimed
os.makedirs("/tmp/props", exist_ok=True)
os.makedirs("/tmp/wt", exist_ok=True)
props = {json.loads(l)["id"]: json.loads(l) for l in open(os.path.join(V, "properties.jsonl"))}
tmpl = open(os.path.join(V, "tools", "seeded_prompt.txt")).read()
extra = ("\nADDITIONALLY (a second, separate deliverable): while you read the anchored code, look for places where the UNCHANGED library "
         "itself seems to violate this property - e.g. an input, interleaving or fault sequence the authors did not think of. If you find "
         "one that you can demonstrate cheaply, write /tmp/wt/@NAME@/_seeded/suspect.md (what fails, why it violates the statement) and "
         "/tmp/wt/@NAME@/_seeded/suspect_demo.py (fails on the UNCHANGED tree). If you find nothing convincing in ~10 minutes, write "
         "\"none\" into suspect.md. Mention the outcome in your final answer. Do not mix this with the seeded change: the seeded change "
         "must be your own new bug.\n")
for i in ids:
    p = props[i]
    with open(f"/tmp/props/{i}.txt", "w") as f:
        f.write(json.dumps(p, indent=1) + "\n")
    name = i + suffix
    t = tmpl
    marker = "Leave the change applied"
    t = t.replace(marker, extra.lstrip("\n") + "\n" + marker) if marker in t else t + extra
    t = t.replace("@NAME@", name).replace("@ID@", i).replace("@FOCUS@", focus)
    open(f"/tmp/props/prompt_{name}.txt", "w").write(t)
    wt = f"/tmp/wt/{name}"
    if not os.path.isdir(wt):
        subprocess.run(["git", "-C", "/repo", "worktree", "add", "-q", "--detach", wt, "HEAD"], check=True)
print(" ".join(i + suffix for i in ids))
