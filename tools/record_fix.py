#!/usr/bin/env python3
"""usage: tools/record_fix.py <PROP> <commit> '<signature(s)>' '<known_findings text>' '<DESIGN 0.3 row middle cell>'
Appends a 'fixed:' entry to known_findings.json and a row to the table of section 0.3 of DESIGN.md."""
import json, sys
prop, commit, sig, text, cell = sys.argv[1:6]
p = '/verif/known_findings.json'
k = json.load(open(p))
k['fixed'].append(f"fixed: property={prop} {commit} {sig} — {text}")
json.dump(k, open(p, 'w'), indent=1, ensure_ascii=False)
d = open('/verif/DESIGN.md').read()
anchor = "| C30 | `timer-monotone` / `outgoing-timer-decreased:first-sent-before-synchronisation-finished`"
assert anchor in d
sigs = " ; ".join("`%s` / `%s`" % tuple(x.split("|", 1)) if "|" in x else "`%s`" % x for x in sig.replace(prop + ".", "").split(" "))
row = f"| {prop} | {sigs} | {cell} | fix `{commit}` |\n"
open('/verif/DESIGN.md', 'w').write(d.replace(anchor, row + anchor, 1))
print("recorded", prop, commit)
