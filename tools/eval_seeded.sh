#!/bin/sh
# usage: tools/eval_seeded.sh <ID> <dir-with-patch.diff+demo+meta.json> [more check IDs...]
# Confirms an independently written breaking change in a scratch worktree (demo passes without / fails with the
# change, unedited suite still passes) and runs the checks against it via PYTHONPATH (equivalent to
# `git -C /repo apply`, but leaves /repo untouched so background runs are not disturbed).
ID=$1; SRC=$2; shift 2; OTHERS="$@"
V=$(cd "$(dirname "$0")/.." && pwd)
N=${SEEDED_NAME:-$ID}
WT=${SEEDED_WT:-/tmp/wt/$N}
DST=$V/seeded/$N
EV=/tmp/ev/$N
mkdir -p $DST /tmp/ev
cp $SRC/patch.diff $DST/ 2>/dev/null
for f in $SRC/demo*.py $SRC/meta.json; do [ -f "$f" ] && cp "$f" $DST/; done
RET=$(python3 -c "import json;print(json.load(open('$DST/meta.json')).get('retired',''))" 2>/dev/null)
[ -n "$RET" ] && { echo "RETIRED: $RET"; exit 0; }
git -C /repo worktree remove --force $EV 2>/dev/null
git -C /repo worktree add -q --detach $EV HEAD || exit 2
# the demo runs from <worktree>/_seeded/, the place its author ran it from (paths relative to the demo file keep working)
mkdir -p $EV/_seeded
cp $DST/demo*.py $EV/_seeded/
DEMO=$(ls $EV/_seeded/demo*.py | head -1)
sed -i "s#$WT\\b#$EV#g" $EV/_seeded/demo*.py 2>/dev/null
run_demo() { (cd $EV && case "$DEMO" in *_test.py) PYTHONPATH=$EV timeout 600 /venv/bin/python -m pytest -q -p no:cacheprovider "$DEMO" >/tmp/ev/$N.demo.out 2>&1;; *) PYTHONPATH=$EV timeout 600 /venv/bin/python "$DEMO" >/tmp/ev/$N.demo.out 2>&1;; esac; echo $?); }
clean=$(run_demo)
(cd $EV && git apply $DST/patch.diff) || { echo "PATCH DOES NOT APPLY"; git -C /repo worktree remove --force $EV; exit 2; }
mut=$(run_demo)
tests=$(cd $EV && timeout 1500 /venv/bin/python -m pytest -q -p no:cacheprovider --timeout=900 2>&1 | tail -1)
echo "demo without change: exit $clean ; with change: exit $mut ; suite with change: $tests"
res=""
for c in $ID $OTHERS; do
  out=$(cd $V && PYTHONPATH=$EV VERIF_EVIDENCE_DIR=/tmp/ev/evidence_$N ./check $c 2>&1); code=$?
  sig=$(echo "$out" | grep -E "^  violation" | cut -c1-160 | head -3)
  echo "check $c exit=$code"; echo "$sig"
  res="$res{\"check\": \"$c\", \"exit\": $code, \"first_violation\": $(echo "$sig" | head -1 | python3 -c 'import json,sys;print(json.dumps(sys.stdin.read().strip()))')},"
done
python3 - <<P
import json
p="$DST/meta.json"
try: m=json.load(open(p))
except Exception: m={}
m["verified_here"]={"demo_exit_without_change": $clean, "demo_exit_with_change": $mut, "suite_with_change": "$tests".strip(),
 "how": "fresh scratch worktree of /repo HEAD under /tmp/ev, patch applied with git apply, checks run with PYTHONPATH pointing at the worktree"}
m["checks"]=json.loads("[" + '''$res'''.rstrip(",") + "]")
json.dump(m, open(p,"w"), indent=1)
P
git -C /repo worktree remove --force $EV
rm -rf /tmp/ev/evidence_$N
