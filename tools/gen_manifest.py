#!/usr/bin/env python3
"""Regenerate MANIFEST.json from props/*.py metadata and the not-applicable table."""
import importlib
import json
import os
import sys

ROOT = os.path.dirname(os.path.dirname(os.path.abspath(__file__)))
sys.path.insert(0, ROOT)

NA = {
    "C01": "pure address parse/format round trip; no schedule, clock, peer, history or fault in the statement (DESIGN.md section 8)",
    "C02": "pure predicate on (pattern, address, notation); nothing for a simulator to schedule or fault",
    "C03": "pure octet <-> TPCI mapping",
    "C04": "totality of a pure decoder over byte strings; input sweep, not a simulation target",
    "C05": "decode(encode(x)) identity of pure codecs",
    "C06": "encode refuses or round-trips; pure function of one input",
    "C07": "totality of pure DPT decoders (consumer liveness is exercised incidentally by W-RUN traffic, without a claim)",
    "C08": "value/payload round trip of pure DPT codecs",
    "C09": "value/payload round trip of pure DPT codecs",
    "C10": "value/payload round trip of pure DPT codecs",
    "C11": "input sweep over setters; the queue is only the observation point, no interleaving enters",
    "C12": "totality of the pure cEMI codec",
    "C13": "round trip of the pure cEMI codec",
    "C20": "totality of the pure KNXnet/IP codec",
    "C21": "round trip of the pure KNXnet/IP codec",
    "C31": "keyring loading is a read-and-parse of one file; the mutations in the statement are semantic edits of the input, not I/O faults",
    "C39": "device loop-back values depend on codec arithmetic and configuration only; the FIFO pipeline adds no schedule dependence",
    "C45": "MCP tool results are pure conversions and pagination",
}


def main():
    checks = []
    props_dir = os.path.join(ROOT, "props")
    ids = sorted(f[:-3].upper() for f in os.listdir(props_dir) if f.startswith("c") and f.endswith(".py"))
    engines = {}
    for pid in ids:
        mod = importlib.import_module(f"props.{pid.lower()}")
        if getattr(mod, "DISABLED", False):
            NA[pid] = mod.DISABLED
            continue
        checks.append({
            "property_id": pid,
            "quick_cmd": f"./check {pid} --tier quick",
            "thorough_cmd": f"./check {pid} --tier thorough",
            "evidence_file": f"/verif/evidence/{pid}.json",
            "replay_cmd_template": "./check --replay {path}",
            "engine": getattr(mod, "WORLD", "sim"),
            "level_claimed": {
                "category": mod.LEVEL,
                "text": getattr(mod, "LEVEL_TEXT", "seeded search over simulated schedules and fault sequences against the real code; evidence, not proof"),
                "design_ref": f"DESIGN.md section 7 ({pid})",
            },
            "level_note": "; ".join(getattr(mod, "ASSUMPTIONS", [])) or "trusted: simulator kernel, independent peer models",
            "technique": getattr(mod, "TECHNIQUE", "deterministic simulation with fault injection (virtual-time asyncio loop, simulated network/peers, seeded schedules and faults)"),
        })
        engines.setdefault(getattr(mod, "WORLD", "sim"), []).append(pid)
    man = {
        "version": 1,
        "setup_cmd": "./setup.sh",
        "hooks": {
            "guard": "XKNX_VERIF_SIM",
            "enable": "none needed: all seams are external monkeypatches installed by /verif/sim/seams.py at run time; /repo carries no hook",
            "baseline_off_cmd": "cd /repo && /venv/bin/python -m pytest -ra -q -p no:cacheprovider --timeout=900 --continue-on-collection-errors",
            "source_commits": [],
            "add_only": True,
        },
        "engines": [{"name": k, "path": "/verif/sim", "serves_properties": v,
                     "kind_free_text": "deterministic simulation world (virtual-time asyncio loop + simulated network + independent peer models)"}
                    for k, v in sorted(engines.items())],
        "checks": checks,
        "notes": "All checks: ./check <ID> [--tier quick|thorough]; VERIF_SEED selects the master seed; exit 0 held / 1 VIOLATION / 2 harness error. "
                 "Determinism self-test: ./check --selftest. Replay: ./check --replay <file>; decoded event log: ./check --trace <file>.",
        "not_applicable": [{"property_id": k, "reason": v} for k, v in sorted(NA.items()) if k not in {c['property_id'] for c in checks}],
    }
    claimed = {c["property_id"] for c in checks}
    allp = [json.loads(l)["id"] for l in open(os.path.join(ROOT, "properties.jsonl"))]
    for p in allp:
        if p not in claimed and p not in NA:
            man["not_applicable"].append({"property_id": p, "reason": "claimed in DESIGN.md but its check is not built yet in this tree; not claimed until it is"})
    man["not_applicable"].sort(key=lambda e: e["property_id"])
    with open(os.path.join(ROOT, "MANIFEST.json"), "w") as f:
        json.dump(man, f, indent=1)
    print("claimed", len(checks), "not_applicable", len(man["not_applicable"]))


if __name__ == "__main__":
    main()
