#!/bin/sh
# re-run every kept seeded change (seeded/<name>/) against the current checks; results go into each meta.json
cd "$(dirname "$0")/.."
for d in seeded/*/; do
  n=$(basename $d); id=$(echo $n | cut -c1-3)
  extra=$(python3 -c "import json;print(' '.join(json.load(open('$d/meta.json')).get('also_run',[])))" 2>/dev/null)
  echo "##### $n"
  SEEDED_NAME=$n tools/eval_seeded.sh $id /verif/seeded/$n $extra 2>&1 | grep -v "same file" | tail -6 | cut -c1-220
done
find replays -type f -delete 2>/dev/null
