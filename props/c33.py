"""C33 — outgoing telegrams go out in order, one at a time, and never stall the queue.

W-RUN: real XKNX.start()/join()/stop(), TelegramQueue, CEMIHandler, Devices with
real Switch devices (one raising), over the stub interface whose send outcomes
(ok after d, CommunicationError, missing confirmation, unexpected exception,
slow) are planned per telegram.
"""

from __future__ import annotations

import asyncio
import random
from typing import Any

from sim import wire as W
from sim.runworld import make_xknx
from sim.world import Run
from sim import e2e as E

ID = "C33"
LEVEL = "exploration"
RUNS = {"quick": 30000, "thorough": 2400000}
BUDGET = {"quick": 100.0, "thorough": 3300.0}
RULE = ("one run = one seeded mix of incoming/outgoing/internal telegrams with planned send outcomes, raising callbacks "
        "and devices, a rate limit from {0,1,5,20,100}, and join()/stop() placed anywhere; non-trivial = at least one "
        "failing/slow send, raising callback/device, rate limit>0 or early stop; distinct = distinct sequence of "
        "(telegram kind, send outcome) plus rate limit and stop placement class")
REAL = ["xknx.XKNX.start/join/stop", "xknx.core.TelegramQueue", "xknx.cemi.CEMIHandler", "xknx.devices.Devices/Switch",
        "xknx.core.TaskRegistry", "xknx.core.StateUpdater (idle)"]
STUB = ["KNXIPInterface (StubInterface)", "loop (SimLoop)"]
E2E_NOTE = ("whole-stack mode (1 run in 12): real XKNX.start() over a real UDP/TCP tunnel against the gateway + bus model of "
            "sim/e2e.py with datagram loss / duplication / delay, gateway crashes and disconnects; this module's clauses "
            "judged across the seams")

REAL = REAL + ["whole-stack mode: " + ", ".join(E.REAL)]
STUB = STUB + ["whole-stack mode: " + ", ".join(E.STUB)]
ASSUMPTIONS = [E2E_NOTE, "'queued' order = order of put_nowait calls on xknx.telegrams",
               "liveness bound = sum over outgoing telegrams of (send latency + 3 s confirmation timeout + 1/rate) + 5 s"]
GA_BASE = W.ga(4, 0, 0)


def gen(seed: int, tier: str) -> dict[str, Any]:
    if seed % 12 == 7:
        # one run in 12: the same clauses across the seams, on the whole stack (sim/e2e.py)
        return E.gen(seed, tier, "C33")
    rng = random.Random(seed)
    n = rng.choice([1, 3, 6, 12, 25])
    rate = rng.choice([0, 0, 1, 5, 20, 100])
    big = rng.random() < 0.06
    if big:
        # a large backlog: many telegrams queued within a moment, more than the sender gets out in that time
        n = rng.choice([40, 70, 130, 300])
        rate = rng.choice([0, 20, 100, 100])
    ops: list[dict[str, Any]] = []
    t = 0.0
    clean = rng.random() < 0.2
    for i in range(n):
        t += rng.choice([0.0, 0.0, 0.0, 0.001]) if big else rng.choice([0.0, 0.0, 0.001, 0.02, 0.3, 1.0])
        kind = rng.choices(["out", "in", "internal_out", "internal_in"], [6, 3, 2, 1])[0]
        op: dict[str, Any] = {"t": round(t, 6), "op": kind, "id": i + 1, "ga": rng.randrange(4)}
        if kind == "out" and not clean:
            r = rng.random()
            if r < 0.6:
                op["b"] = {"lat": rng.choice([0.0, 0.002, 0.05]), "out": "ok", "con": "after",
                           "con_d": rng.choice([0.0, 0.003, 0.003, 0.5, 2.9, 3.5])}
            elif r < 0.7:
                op["b"] = {"lat": 0.002, "out": "comm_error"}
                if rng.random() < 0.5:
                    # the send fails because the connection drops while the frame is with the interface - and the
                    # connection is back a moment later
                    op["b"]["flap"] = {"down": 0.001, "up": rng.choice([0.0005, 0.005, 0.03])}
            elif r < 0.8:
                op["b"] = {"lat": 0.002, "out": "ok", "con": "never"}
            elif r < 0.88:
                op["b"] = {"lat": 0.002, "out": "exc"}
            elif r < 0.94:
                op["b"] = {"lat": rng.choice([2.0, 6.0]), "out": "ok", "con": "after", "con_d": 0.003}
            else:
                op["b"] = {"lat": 0.001, "out": "ok", "con": "before_return"}
        ops.append(op)
    cfg = {"rate_limit": rate, "raising_cb": (not clean) and rng.random() < 0.4,
           "raising_device": (not clean) and rng.random() < 0.3, "batch": 1}
    stop_mode = rng.choice(["end", "end", "early", "join_then_stop", "immediately"])
    if stop_mode == "early":
        cfg["stop_at"] = round(rng.uniform(0.0, t + 0.1), 6)
    elif stop_mode == "immediately":
        cfg["stop_at"] = ops[-1]["t"]
    else:
        cfg["stop_at"] = None
    cfg["join_first"] = stop_mode == "join_then_stop"
    # stopping = XKNX.stop() (which waits for the queue first) or TelegramQueue.stop() itself with telegrams still pending
    cfg["stop_via"] = "queue" if stop_mode in ("early", "immediately") and rng.random() < 0.4 else "xknx"
    # two stop() calls overlap (e.g. a context-manager exit racing a signal handler)
    cfg["overlap_stop"] = rng.random() < 0.15
    cfg["shadow"] = rate > 0 and rng.random() < 0.3
    if cfg["stop_via"] == "xknx" and rng.random() < 0.25:
        # the same XKNX object is started again after stop() returned and sends a few more telegrams
        cfg["restart"] = {"n": rng.choice([1, 2, 4]), "gap": rng.choice([0.0, 0.001, 0.3]),
                          # stop() is called once more on the stopped object before it is started again (e.g. the user's own
                          # clean-up after `async with XKNX()` already stopped it)
                          "second_stop": rng.random() < 0.4}
    return {"seed": seed, "tier": "S", "config": cfg, "ops": ops}


def run(plan: dict[str, Any]) -> dict[str, Any]:
    if plan["config"].get("mode") == "e2e":
        R, obs = E.run(plan)
        E.judge_c33(R, obs)
        return E.finish(R, obs)
    from xknx.devices import Switch
    from xknx.dpt import DPTArray
    from xknx.telegram import GroupAddress, Telegram, TelegramDirection
    from xknx.telegram.address import InternalGroupAddress
    from xknx.telegram.apci import GroupValueWrite

    cfg = plan["config"]
    R = Run(plan, max_time=5000.0)
    loop = R.loop
    xknx, stub, q = make_xknx(R, rate_limit=cfg["rate_limit"])
    behaviours = {op["id"]: op.get("b") for op in plan["ops"] if op["op"] == "out"}

    def pid_of(raw: bytes):
        c = W.parse_cemi_ldata(raw)
        if c and len(c["tpdu"]) >= 4:
            return int.from_bytes(c["tpdu"][2:4], "big")
        return None

    def pick(raw, i):
        b = behaviours.get(pid_of(raw))
        if b and b.get("flap"):
            from xknx.core import XknxConnectionState as _S
            cm = xknx.connection_manager
            loop.after(b["flap"]["down"], lambda: cm.connection_state_changed(_S.DISCONNECTED), label="op")
            loop.after(b["flap"]["down"] + b["flap"]["up"], lambda: cm.connection_state_changed(_S.CONNECTED), label="op")
            R.extra_faults["connection_flap_during_send"] += 1
        return b
    stub.pick = pick
    seen_cb: list[tuple[int, str]] = []
    seen_dev: list[tuple[int, str]] = []
    info: dict[str, Any] = {"join_ret": None, "stop_ret": None, "stop_call": None, "unfinished": None, "puts": []}

    def tid(tg) -> int:
        try:
            return int.from_bytes(bytes(tg.payload.value.value), "big")
        except Exception:  # pylint: disable=broad-except
            return -1

    def all_cb(tg):
        seen_cb.append((tid(tg), tg.direction.name))
        R.record("cb", "all", tid(tg))
        if cfg["raising_cb"]:
            raise RuntimeError("scripted callback failure")

    def second_cb(tg):
        R.record("cb", "second", tid(tg))

    class RaisingSwitch(Switch):
        def process_group_write(self, telegram):
            seen_dev.append((tid(telegram), self.name))
            R.record("dev", self.name, tid(telegram))
            if cfg["raising_device"] and self.name == "sw0":
                raise RuntimeError("scripted device failure")

    rng_sh = random.Random(plan["seed"] ^ 0x5AD0)
    shadow_task: list[Any] = [None]

    async def main():
        xknx.telegram_queue.register_telegram_received_cb(all_cb, match_for_outgoing=True)
        xknx.telegram_queue.register_telegram_received_cb(second_cb, match_for_outgoing=True)
        for g in range(4):
            xknx.devices.async_add(RaisingSwitch(xknx, f"sw{g}", group_address=GroupAddress(GA_BASE + g)))
        xknx.devices.async_add(RaisingSwitch(xknx, "swi", group_address="i-internal"))
        await xknx.start()
        t0 = loop.time()
        if cfg.get("shadow"):
            # a second XKNX object of the same process: rate limited, busy sending, and stopped in the middle of the run
            from xknx.dpt import DPTBinary
            xknx2, stub2, q2 = make_xknx(R, rate_limit=rng_sh.choice([5, 20, 50]))
            await xknx2.start()
            for j in range(rng_sh.choice([3, 6, 12])):
                xknx2.telegrams.put_nowait(Telegram(destination_address=GroupAddress(GA_BASE + 64 + (j & 3)),
                                                   payload=GroupValueWrite(DPTBinary(j & 1))))
            R.extra_faults["second_xknx_object_stopped_meanwhile"] += 1

            async def stop2():
                await asyncio.sleep(rng_sh.choice([0.0, 0.03, 0.11, 0.26, 0.6]))
                await xknx2.stop()
            shadow_task[0] = loop.create_task(stop2())

        def do(op):
            if info["stop_call"] is not None:
                return  # the user does not queue telegrams after calling stop()
            k = op["op"]
            payload = GroupValueWrite(DPTArray(tuple(op["id"].to_bytes(2, "big"))))
            if k in ("out", "in"):
                dst = GroupAddress(GA_BASE + op["ga"])
            else:
                dst = InternalGroupAddress("i-internal")
            direction = TelegramDirection.OUTGOING if k in ("out", "internal_out") else TelegramDirection.INCOMING
            tg = Telegram(destination_address=dst, payload=payload, direction=direction)
            info["puts"].append((op["id"], k))
            xknx.telegrams.put_nowait(tg)

        tl = 0.0
        for op in plan["ops"]:
            loop.at(t0 + op["t"], (lambda o=op: do(o)), label="op")
            tl = max(tl, op["t"])

        async def stopper():
            if cfg["join_first"]:
                await xknx.join()
                info["join_ret"] = loop.time()
            info["stop_call"] = loop.time()
            R.record("op_call", "user", "stop")
            if cfg.get("overlap_stop"):
                R.extra_faults["overlapping_stop_calls"] += 1
            if cfg.get("stop_via") == "queue":
                if cfg.get("overlap_stop"):
                    await asyncio.gather(xknx.telegram_queue.stop(), xknx.telegram_queue.stop())
                else:
                    await xknx.telegram_queue.stop()
                await xknx.knxip_interface.stop()
            elif cfg.get("overlap_stop"):
                await asyncio.gather(xknx.stop(), xknx.stop())
            else:
                await xknx.stop()
            info["stop_ret"] = loop.time()
            R.record("op_return", "user", "stop")

        stop_at = cfg["stop_at"] if cfg["stop_at"] is not None else tl + 0.001
        await asyncio.sleep(stop_at)
        task = loop.create_task(stopper())
        n_out = sum(1 for o in plan["ops"] if o["op"] == "out")
        bound = sum((o.get("b") or {}).get("lat", 0.002) + 3.0 for o in plan["ops"] if o["op"] == "out")
        bound += (n_out / cfg["rate_limit"] if cfg["rate_limit"] else 0.0) + 5.0
        info["bound"] = bound
        await asyncio.wait([task], timeout=bound)
        info["unfinished"] = xknx.telegrams._unfinished_tasks
        if not task.done():
            task.cancel()
            await asyncio.gather(task, return_exceptions=True)
        elif cfg.get("restart"):
            rs = cfg["restart"]
            await asyncio.sleep(rs["gap"])
            if rs.get("second_stop"):
                try:
                    async with asyncio.timeout(10):
                        await xknx.stop()
                except TimeoutError:
                    info["second_stop_hung"] = True
                R.extra_faults["stop_called_on_stopped_object"] += 1
            await xknx.start()
            for j in range(rs["n"]):
                tg = Telegram(destination_address=GroupAddress(GA_BASE + (j & 3)),
                              payload=GroupValueWrite(DPTArray(tuple((1000 + j).to_bytes(2, "big")))),
                              direction=TelegramDirection.OUTGOING)
                xknx.telegrams.put_nowait(tg)

            async def stopper2():
                await xknx.stop()
                info["stop2_ret"] = loop.time()

            task2 = loop.create_task(stopper2())
            await asyncio.wait([task2], timeout=rs["n"] * (3.1 + (1.0 / cfg["rate_limit"] if cfg["rate_limit"] else 0.0)) + 5.0)
            info["unfinished2"] = xknx.telegrams._unfinished_tasks
            if not task2.done():
                task2.cancel()
                await asyncio.gather(task2, return_exceptions=True)
        await asyncio.sleep(0.01)
        if shadow_task[0] is not None:
            if not shadow_task[0].done():
                await asyncio.wait([shadow_task[0]], timeout=30.0)
            if not shadow_task[0].done():
                shadow_task[0].cancel()
            await asyncio.gather(shadow_task[0], return_exceptions=True)

    R.execute(main())
    abstract = oracle(R, plan, stub, info, seen_cb, seen_dev, pid_of)
    R.check_escapes("C33.no-escape")
    return R.result(nontrivial=R.probes["nontrivial"] > 0, abstract=abstract)


def oracle(R, plan, stub, info, seen_cb, seen_dev, pid_of):
    cfg = plan["config"]
    rate = cfg["rate_limit"]
    puts = info["puts"]
    out_ids = [i for (i, k) in puts if k == "out"]
    # hand-offs in queue order, never overlapping, spaced
    ho = [(pid_of(h["raw"]), h) for h in stub.handoffs]
    ho_ids = [p for p, _ in ho]
    if [p for p in ho_ids if p is None or p < 1000] != out_ids[:len([p for p in ho_ids if p is None or p < 1000])]:
        R.violate("C33.order", "handoff-order!=queue-order", f"queued outgoing {out_ids}, handed to interface {ho_ids}")
    for (p1, h1), (p2, h2) in zip(ho, ho[1:]):
        if h1["ret_n"] is None or h1["ret_n"] > h2["n"]:
            R.violate("C33.one-at-a-time", "overlapping-handoffs", f"telegram {p2} handed off before {p1} returned")
        crosses_restart = p1 is not None and p2 is not None and p1 < 1000 <= p2   # the limiter starts anew with the queue
        if rate and not crosses_restart and h2["t"] - h1["t"] < 1.0 / rate - 1e-9:
            R.violate("C33.rate-limit", f"spacing<1/{rate}",
                      f"telegrams {p1},{p2} handed off {h2['t'] - h1['t']:.6f}s apart with rate_limit {rate}")
    # one at a time: a telegram is handed over only when the previous send is finished - confirmed by an L_Data.con
    # handled after its hand-off, given up after the 3 s confirmation timeout, or failed in the hand-off itself
    cons = [(n, t) for (n, t, it, kind, actor, detail) in R.events if kind == "cemi_in" and actor == "con"]
    for (p1, h1), (p2, h2) in zip(ho, ho[1:]):
        if h1["ret_n"] is None:
            continue
        fin = h1["ret_t"]
        if h1["b"].get("out", "ok") == "ok":
            first = next((t for (n, t) in cons if n > h1["n"]), None)
            fin = max(h1["ret_t"], min(first if first is not None else float("inf"), h1["ret_t"] + 3.0))
        if h2["t"] < fin - 1e-6:
            R.violate("C33.one-at-a-time", "next-handoff-before-previous-send-finished",
                      f"telegram {p2} handed off at {h2['t']:.6f}; telegram {p1} (hand-off returned {h1['ret_t']:.6f}) is "
                      f"confirmed / given up only at {fin:.6f}")
    for (i, k) in puts:
        if k.startswith("internal") and i in ho_ids:
            R.violate("C33.internal", "internal-telegram-reached-interface", f"telegram {i}")
    # internal telegrams are processed by devices and callbacks
    stopped_early = cfg["stop_at"] is not None
    cb_ids = [i for (i, d) in seen_cb]
    dev_ids = [i for (i, d) in seen_dev]
    for (i, k) in puts:
        if k.startswith("internal"):
            if i not in cb_ids:
                R.violate("C33.internal", "internal-telegram-missed-callback", f"telegram {i} ({k})")
            if i not in dev_ids and not (cfg["raising_cb"] and False):
                R.violate("C33.internal", "internal-telegram-missed-device", f"telegram {i} ({k})")
    # liveness: stop (and join) returned within the bound, nothing unfinished
    if info["stop_ret"] is None:
        R.violate("C33.liveness", "stop-did-not-return" if not cfg["join_first"] or info["join_ret"] is not None
                  else "join-did-not-return",
                  f"stop() called at {info['stop_call']}, bound {info.get('bound'):.1f}s, unfinished={info['unfinished']}")
    elif info["unfinished"] != 0:
        R.violate("C33.liveness", "unfinished-tasks-after-stop", f"queue reports {info['unfinished']} unfinished telegrams")
    if cfg.get("restart") and info["stop_ret"] is not None:
        R.extra_faults["restart_same_object"] += 1
        sent2 = [p for p in ho_ids if p is not None and p >= 1000]
        if info.get("second_stop_hung"):
            R.violate("C33.liveness", "stop-of-a-stopped-object-did-not-return", "second stop() call hung")
        if info.get("stop2_ret") is None:
            R.violate("C33.liveness", "stop-did-not-return-after-restart",
                      f"second stop() of the same XKNX object did not return; unfinished={info.get('unfinished2')}, "
                      f"telegrams of the second life handed to the interface: {sent2}")
        elif sent2 != [1000 + j for j in range(cfg["restart"]["n"])]:
            R.violate("C33.order", "telegrams-after-restart-not-sent-in-order", f"handed to interface {sent2}")
    if rate or cfg["raising_cb"] or cfg["raising_device"] or stopped_early or any(
            (o.get("b") or {}).get("out", "ok") != "ok" or (o.get("b") or {}).get("con") == "never"
            or (o.get("b") or {}).get("lat", 0) >= 2.0 for o in plan["ops"]):
        R.probes["nontrivial"] += 1
    R.extra_faults["send_comm_error"] += sum(1 for _, h in ho if h["b"].get("out") == "comm_error")
    R.extra_faults["send_unexpected_exception"] += sum(1 for _, h in ho if h["b"].get("out") == "exc")
    R.extra_faults["confirmation_missing"] += sum(1 for _, h in ho if h["b"].get("con") == "never")
    R.extra_faults["slow_send"] += sum(1 for _, h in ho if h["b"].get("lat", 0) >= 2.0)
    R.extra_faults["raising_callback"] += int(cfg["raising_cb"])
    R.extra_faults["raising_device"] += int(cfg["raising_device"])
    R.extra_faults["early_stop"] += int(stopped_early)
    return [(k, (next((o.get("b") or {}) for o in plan["ops"] if o["id"] == i)).get("out"),
             (next((o.get("b") or {}) for o in plan["ops"] if o["id"] == i)).get("con")) for (i, k) in puts] + \
           [rate, cfg["raising_cb"], cfg["raising_device"], "early" if stopped_early else "end", cfg["join_first"]]
