"""C16 — tampered Data Secure frames are never delivered (W-DS, corruption fault enumerated).

In-flight corruption is a first-class network fault.  For sampled genuine frames
(both algorithms) the fault layer delivers every single-bit flip of every octet
of the cEMI frame (exhaustive per frame), then wrong-key and truncated variants,
then the untouched original.  The oracle needs no cryptography: the harness
knows which bit of which field of a genuine frame it flipped.
"""

from __future__ import annotations

import random
from typing import Any

from sim import crypto as C
from sim import dsworld as D
from sim import wire as W
from sim.world import Run

ID = "C16"
LEVEL = "fault_enumeration"
RUNS = {"quick": 2400, "thorough": 240000}
BUDGET = {"quick": 100.0, "thorough": 3300.0}
CHUNK = 20
EXHAUSTIVE = ["every single-bit flip of every octet of each sampled secured cEMI frame, plus wrong-key and all truncations"]
RULE = ("one run = one sampled genuine secured frame (algorithm, APDU length 2..60, addresses, key, counter, flags) delivered "
        "to a real receiver under every single-bit flip (fresh receiver state per variant), a wrong key, every truncation, and "
        "in a second pass all protected-field variants in a row followed by the original; non-trivial = the original is "
        "accepted at the end; distinct = distinct (algorithm, APDU length, frame format)")
REAL = ["xknx.cemi.CEMIHandler.handle_raw_cemi", "xknx.cemi.CEMIFrame codec", "xknx.secure.data_secure.DataSecure",
        "xknx.secure.data_secure_asdu.SecureData", "xknx.telegram.apci"]
STUB = ["in-transit corruption (harness)", "reference device producing the genuine frames (sim.crypto)", "KNXIPInterface stub"]
ASSUMPTIONS = ["'delivered' = put on xknx.telegrams by CEMIHandler (the statement's observation point)",
               "flips of bits the statement does not classify (other Ctrl1 bits, message code, additional-info length, NPDU "
               "length, the A_Sec APCI marker) are unjudged except: no raise, and no telegram with a different payload"]


def preflight():
    return C.anchor_selftest()


def gen(seed: int, tier: str) -> dict[str, Any]:
    rng = random.Random(seed)
    return {"seed": seed, "tier": "S", "config": {"algo": rng.choice(["enc", "enc", "auth"]), "len": rng.choice(
        [2, 3, 4, 5, 13, 14, 15, 16, 17, 30, 60]) if rng.random() < 0.7 else rng.randint(2, 60),
        "hops": rng.randrange(8), "prio": rng.randrange(4), "repeat": rng.randrange(2), "batch": 1}, "ops": []}


def field_of(off: int, bit: int, n: int) -> str:
    """Classify one bit of a secured cEMI frame (no additional info): n = total length."""
    if off == 0:
        return "msgcode"
    if off == 1:
        return "addinfo-len"
    if off == 2:   # Ctrl1: frame type(7) rsvd(6) repeat(5) sysbcast(4) prio(3,2) ack(1) confirm(0)
        return {7: "frame-type", 5: "repeat", 3: "priority", 2: "priority"}.get(bit, "ctrl1-other")
    if off == 3:   # Ctrl2: address type(7) hop count(6..4) extended frame format(3..0)
        return "address-type" if bit == 7 else "hop-count" if bit >= 4 else "ext-frame-format"
    if off in (4, 5):
        return "source"
    if off in (6, 7):
        return "destination"
    if off == 8:
        return "npdu-len"
    if off == 9:
        return "tpci" if bit >= 2 else "apci-marker"
    if off == 10:
        return "apci-marker"
    if off == 11:
        return "scf"
    if off <= 17:
        return "sequence-number"
    if off >= n - 4:
        return "mac"
    return "secured-apdu"


PROTECTED = {"address-type", "ext-frame-format", "source", "destination", "tpci", "scf", "sequence-number", "secured-apdu", "mac"}
UNPROTECTED = {"frame-type", "repeat", "priority", "hop-count"}


def run(plan: dict[str, Any]) -> dict[str, Any]:
    cfg = plan["config"]
    R = Run(plan)
    rng = random.Random(plan["seed"] ^ 0xC16)
    ga = rng.randrange(1, 0xFFFF)
    key = rng.randbytes(16)
    src = rng.randrange(0x1001, 0xFFFE)
    seq = rng.randrange(2, 2 ** 48 - 2)
    ln = cfg["len"]
    apdu = bytes((0x00, 0x80 | rng.randrange(64))) if ln == 2 else bytes((0x00, 0x80)) + rng.randbytes(ln - 2)
    scf = D.SCF_ENC if cfg["algo"] == "enc" else D.SCF_AUTH
    ctrl1 = (0x90 if ln + 11 <= 15 else 0x10) | (cfg["repeat"] << 5) | (cfg["prio"] << 2)
    good = D.secure_frame(key, apdu, seq, src, ga, scf=scf, ctrl1=ctrl1, hops=cfg["hops"])
    n = len(good)
    # neighbours that a flipped source/destination may hit are unknown / unkeyed
    rx = D.Node(R, "rx", 0x5001, {ga: key}, {src: seq - 1})
    handler = rx.xknx.cemi_handler
    stats = {"variants": 0}

    def deliver(raw: bytes, fresh: bool = True):
        """Returns (list of delivered apdu bytes, escaped exception or None)."""
        if fresh:
            handler.data_secure = rx.make_ds(table={src: seq - 1})
        before = len(rx.q.puts)
        esc = None
        try:
            handler.handle_raw_cemi(raw)
        except Exception as exc:  # pylint: disable=broad-except
            esc = exc
        out = []
        for tg in rx.q.puts[before:]:
            try:
                out.append(bytes(tg.payload.to_knx()))
            except Exception:  # pylint: disable=broad-except
                out.append(b"?")
        stats["variants"] += 1
        return out, esc

    # pass 0: the original alone is accepted
    out, esc = deliver(good)
    if esc is not None or out != [apdu]:
        R.violate("C16.original-accepted", "genuine-frame-not-accepted",
                  f"{cfg} frame {good.hex()}: delivered {[o.hex() for o in out]}, raised {esc!r}")
        return R.result(nontrivial=False, abstract=[cfg["algo"], ln])
    # pass A: every single-bit flip, fresh receiver state each time
    for off in range(n):
        for bit in range(8):
            b = bytearray(good)
            b[off] ^= 1 << bit
            fld = field_of(off, bit, n)
            out, esc = deliver(bytes(b))
            R.extra_faults["bitflip_" + ("protected" if fld in PROTECTED else "unprotected" if fld in UNPROTECTED else "unclassified")] += 1
            if esc is not None:
                R.violate("C16.no-raise", f"{type(esc).__name__}:{fld}", f"flip octet {off} bit {bit} ({fld}): {esc!r}")
                continue
            if fld in PROTECTED:
                if out:
                    R.violate("C16.tamper-rejected", f"delivered-after-flip-in:{fld}",
                              f"flip octet {off} bit {bit} ({fld}) of {good.hex()}: delivered {[o.hex() for o in out]}")
            elif fld in UNPROTECTED:
                if out != [apdu]:
                    R.violate("C16.unprotected-accepted", f"not-delivered-after-flip-in:{fld}",
                              f"flip octet {off} bit {bit} ({fld}): delivered {[o.hex() for o in out]}, expected the original APDU")
            else:
                if any(o != apdu for o in out):
                    R.violate("C16.tamper-rejected", f"different-payload-delivered-after-flip-in:{fld}",
                              f"flip octet {off} bit {bit} ({fld}): delivered {[o.hex() for o in out]}")
    # wrong key, truncations
    out, esc = deliver(D.secure_frame(rng.randbytes(16), apdu, seq, src, ga, scf=scf, ctrl1=ctrl1, hops=cfg["hops"]))
    R.extra_faults["wrong_key"] += 1
    if out or esc:
        R.violate("C16.tamper-rejected", "delivered-with-wrong-key", f"{[o.hex() for o in out]} {esc!r}")
    for cut in range(1, n):
        t = bytearray(good[:cut])
        out, esc = deliver(bytes(t))
        R.extra_faults["truncated"] += 1
        if esc is not None:
            R.violate("C16.no-raise", f"{type(esc).__name__}:truncated", f"frame cut to {cut} octets: {esc!r}")
        elif out:
            R.violate("C16.tamper-rejected", "truncated-frame-delivered", f"cut to {cut}: {[o.hex() for o in out]}")
        if cut > 9:
            # truncation with a consistent NPDU length octet (a shorter but well-formed frame)
            t2 = bytearray(good[:cut])
            t2[8] = cut - 10
            out, esc = deliver(bytes(t2))
            if esc is not None:
                R.violate("C16.no-raise", f"{type(esc).__name__}:truncated-consistent", f"cut to {cut}: {esc!r}")
            elif out:
                R.violate("C16.tamper-rejected", "truncated-frame-delivered", f"cut to {cut} (length fixed): {[o.hex() for o in out]}")
    # pass B: one receiver state; all protected-field variants in a row must not advance the counter
    handler.data_secure = rx.make_ds(table={src: seq - 1})
    for off in range(4, n):
        for bit in range(8):
            if field_of(off, bit, n) in PROTECTED and field_of(off, bit, n) != "source":
                b = bytearray(good)
                b[off] ^= 1 << bit
                out, esc = deliver(bytes(b), fresh=False)
                if out:
                    R.violate("C16.tamper-rejected", "delivered-in-pass-B", f"octet {off} bit {bit}")
    out, esc = deliver(good, fresh=False)
    ok = out == [apdu] and esc is None
    if not ok:
        R.violate("C16.rejected-do-not-advance", "original-rejected-after-tampered-variants",
                  f"after all tampered variants the untouched frame delivered {[o.hex() for o in out]} {esc!r}")
    # pass C: the receiver has now accepted a frame of this sender for this address; the sender's next frame under every flip
    # of a protected field is rejected all the same (nothing learned from an accepted frame may vouch for a later one), and
    # the untouched next frame is accepted
    if ok:
        good2 = D.secure_frame(key, apdu, seq + 1, src, ga, scf=scf, ctrl1=ctrl1, hops=cfg["hops"])
        for off in range(4, len(good2)):
            for bit in range(8):
                fld = field_of(off, bit, len(good2))
                if fld in PROTECTED:
                    b = bytearray(good2)
                    b[off] ^= 1 << bit
                    out, esc = deliver(bytes(b), fresh=False)
                    if esc is not None:
                        R.violate("C16.no-raise", f"{type(esc).__name__}:{fld}", f"pass C flip octet {off} bit {bit}: {esc!r}")
                    elif out:
                        R.violate("C16.tamper-rejected", f"delivered-after-an-accepted-frame:flip-in:{fld}",
                                  f"after the genuine frame {good.hex()} was accepted, its successor with octet {off} bit {bit} "
                                  f"({fld}) flipped delivered {[o.hex() for o in out]}")
                    # the same tampered frame once more right away (a link-layer repetition - its repeat flag may differ): a
                    # rejection leaves nothing behind that vouches for the next arrival
                    b2 = bytearray(b)
                    if rng.random() < 0.5:
                        b2[2] ^= 0x20
                    out, esc = deliver(bytes(b2), fresh=False)
                    R.extra_faults["tampered_frame_repeated"] += 1
                    if esc is not None:
                        R.violate("C16.no-raise", f"{type(esc).__name__}:{fld}", f"pass C repeated flip octet {off} bit {bit}: {esc!r}")
                    elif out:
                        R.violate("C16.tamper-rejected", f"delivered-on-second-arrival:flip-in:{fld}",
                                  f"the successor of an accepted frame with octet {off} bit {bit} ({fld}) flipped was rejected, "
                                  f"the same frame arriving again delivered {[o.hex() for o in out]}")
        out, esc = deliver(good2, fresh=False)
        if out != [apdu] or esc is not None:
            R.violate("C16.rejected-do-not-advance", "successor-rejected-after-tampered-variants",
                      f"the untouched successor frame delivered {[o.hex() for o in out]} {esc!r}")
        R.probes["pass_C_runs"] += 1
    # pass D: the node is sending a secured telegram of its own (waiting for the L_Data.con) when tampered copies of that very
    # frame come back from the bus as indications - same source (its own address is a known sender), sequence number and MAC,
    # bits of the secured APDU flipped. Nothing computed for the frame being sent may vouch for what is received.
    if ok and cfg["algo"] == "enc" and plan["seed"] % 3 == 0:
        import asyncio
        from xknx.dpt import DPTArray
        from xknx.telegram import GroupAddress, Telegram
        from xknx.telegram.apci import GroupValueWrite
        own = 0x5001
        handler.data_secure = rx.make_ds(table={src: seq - 1, own: 0})
        sent: list[bytes] = []
        rx.stub.on_send = lambda raw, rec: sent.append(raw)
        rx.stub.default = {"lat": 0.0, "out": "ok", "con": "after", "con_d": 0.5}
        n_bad = [0]

        async def main():
            tg = Telegram(destination_address=GroupAddress(ga), payload=GroupValueWrite(DPTArray(tuple(apdu[2:]) or (1,))))
            task = R.loop.create_task(handler.send_telegram(tg))
            await asyncio.sleep(0.01)
            if sent:
                own_ind = bytes((W.L_DATA_IND,)) + sent[0][1:]
                ps_ = D.parse_secure(own_ind)
                n_ = len(own_ind)
                # secured APDU = everything between the sequence number and the MAC
                for off in range(n_ - 4 - max(0, len(ps_["asdu"]) - 10), n_ - 4):
                    for bit in range(8):
                        b = bytearray(own_ind)
                        b[off] ^= 1 << bit
                        out_, esc_ = deliver(bytes(b), fresh=False)
                        if out_:
                            n_bad[0] += 1
                            R.violate("C16.tamper-rejected", "tampered-copy-of-the-frame-being-sent-delivered",
                                      f"while the node waited for the confirmation of {sent[0].hex()} a copy with octet {off} bit {bit} "
                                      f"flipped was delivered: {[o.hex() for o in out_]}")
                            break
                    if n_bad[0]:
                        break
                R.extra_faults["tampered_loopback_while_sending"] += 1
            await asyncio.wait([task], timeout=5.0)
            if not task.done():
                task.cancel()
            await asyncio.gather(task, return_exceptions=True)
        R.execute(main())
        R.probes["pass_D_runs"] += 1
    R.probes["variants_delivered"] += stats["variants"]
    R.probes["undecoded_data_secure_counter"] += rx.xknx.connection_manager.undecoded_data_secure
    return R.result(nontrivial=ok, abstract=[cfg["algo"], ln, cfg["hops"], cfg["prio"], cfg["repeat"]])
