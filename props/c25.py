"""C25 — connection lifecycle stays consistent under any failure schedule.

W-TUN: real UDPTunnel / TCPTunnel (bare, with the real ConnectionManager of an
XKNX object) or a full XKNX.start()/stop() over the same tunnels, against
SimGateway.  Failure operations are placed at arbitrary instants and overlap:
heartbeat failures, server DisconnectRequests (own / foreign channel), TCP
reset/close, lost ACKs, refused or unanswered reconnects, gateway crash/restart,
user sends, and the user's disconnect()/stop() at any instant (including
trigger-relative placements a few loop iterations after a server disconnect is
delivered).
"""

from __future__ import annotations

import asyncio
import random
from typing import Any

from sim import wire as W
from sim import crypto as C
from sim.gateway import SimGateway
from sim.secure_gateway import SecureGateway
from sim.world import Run

ID = "C25"
LEVEL = "exploration"
RUNS = {"quick": 30000, "thorough": 2400000}
BUDGET = {"quick": 100.0, "thorough": 3300.0}
RULE = ("one run = one seeded tunnel session with overlapping failure operations and a user disconnect placed "
        "absolutely or trigger-relative; non-trivial = at least one failure operation or fault fired; distinct = "
        "distinct abstract trace (wire event kinds, state changes, op outcomes)")
REAL = ["xknx.io.tunnel.UDPTunnel/TCPTunnel", "xknx.core.ConnectionManager", "xknx.io.KNXIPInterface (xknx mode)",
        "xknx.XKNX.start/stop (xknx mode)", "xknx.io.request_response.*", "xknx.io.transport.*",
        "xknx.io.data_connection.ConnectionHeartbeat"]
STUB = ["gateway (SimGateway)", "network (SimNet)", "loop clock/selector (SimLoop)",
        "main loop of threaded mode (some runs): BusyMainLoop stands in for ConnectionManager._main_loop and applies the state "
        "reports handed over with call_soon_threadsafe in order, when its seeded busy window ends"]
ASSUMPTIONS = ["the connection thread of threaded mode is not a real thread: the interface runs on the simulated loop, only the "
               "hand-over of its state reports to a (busy) main loop is simulated; 'CONNECTED only when a ConnectResponse is "
               "consumed' is not judged in those runs (the report is applied later)",
               "CPython 3.12 BaseEventLoop scheduling semantics",
               "routing connections are covered by their own worlds (C27/C30 modules) for lifecycle clauses"]
GA = W.ga(3, 1, 1)


def gen(seed: int, tier: str) -> dict[str, Any]:
    rng = random.Random(seed)
    transport = rng.choice(["udp", "udp", "tcp", "secure"])
    mode = "bare" if rng.random() < 0.8 else "xknx"
    long_run = rng.random() < 0.25
    horizon = rng.choice([150.0, 400.0]) if long_run else rng.choice([3.0, 8.0, 20.0])
    ops: list[dict[str, Any]] = []
    nfail = rng.choice([0, 1, 1, 2, 3, 5])
    kinds = ["srv_disconnect", "srv_disconnect_foreign", "gw_crash", "send", "send", "cross", "send_cancel"]
    if transport in ("tcp", "secure"):
        kinds += ["tcp_reset", "tcp_close"]
    for _ in range(nfail):
        k = rng.choice(kinds)
        t = round(rng.uniform(0.01, horizon), 6)
        op: dict[str, Any] = {"t": t, "op": k}
        if k == "gw_crash":
            ops.append({"t": round(t + rng.choice([0.3, 2.0, 5.0, 30.0]), 6), "op": "gw_restart"})
        if k == "send_cancel":
            # the caller of a send gives up (asyncio.wait_for around it, shutdown of one of its tasks): the send task is
            # cancelled while it waits - for the lock, a reconnect in progress, or its acknowledgement
            op["d"] = rng.choice([0.0, 0.0005, 0.01, 0.3, 1.0, 1.5, 2.5])
            if rng.random() < 0.6:
                # ... preferably while the tunnel is re-establishing itself
                ops.append({"t": round(max(0.0, t - rng.choice([0.0005, 0.002, 0.2, 0.9])), 6), "op": "srv_disconnect"})
        if k == "cross":
            op["lat"] = rng.choice([0.001, 0.002])
            op["off"] = rng.choice([-0.0005, -1e-6, 0.0, 0.0, 1e-6, 0.0005, 0.0015])
            op["iters"] = rng.choice([0, 1, 2, 3])
        ops.append(op)
    if mode == "bare" and rng.random() < 0.12:
        # the user disconnects while a send is under way towards a gateway that has gone silent: (a) the send waits for its
        # acknowledgement - its repetition falls due while disconnect() waits for the DisconnectResponse; (b) two missing
        # acknowledgements have started a reconnect whose own DisconnectRequest goes unanswered, a second send is parked behind
        # that reconnect and the user's disconnect() releases it
        t = round(rng.uniform(0.05, max(0.1, horizon - 4.0)), 6)
        ops.append({"t": t, "op": "gw_crash"})
        ops.append({"t": round(t + 0.01, 6), "op": "send"})
        if rng.random() < 0.5:
            ops.append({"t": round(t + 0.01 + rng.choice([0.2, 0.5, 0.9, 0.999]), 6), "op": "user_disconnect"})
        else:
            t2 = t + 0.01 + 2.0 + rng.choice([0.05, 0.3, 0.7])
            ops.append({"t": round(t2, 6), "op": "send"})
            ops.append({"t": round(t2 + rng.choice([0.01, 0.1, 0.2]), 6), "op": "user_disconnect"})
    if mode == "xknx":
        ops = [o for o in ops if o["op"] not in ("send", "send_cancel")]
    # user disconnect
    ud = rng.random()
    if ud < 0.55 and not any(o["op"] in ("cross", "user_disconnect") for o in ops):
        # near another op (inside an in-flight phase) or anywhere
        if ops and rng.random() < 0.6:
            base = rng.choice(ops)["t"]
            t = base + rng.choice([0.0, 0.0005, 0.0015, 0.003, 0.01, 0.5, 1.0, 1.002, 2.0, 3.1])
        else:
            t = rng.uniform(0.0, horizon)
        ops.append({"t": round(t, 6), "op": "user_disconnect"})
    # the gateway numbers its channels from here (one octet; 0 is a legal id)
    gwscript: dict[str, Any] = {"first_channel": rng.choice([1, 1, 1, 0, 0, 23, 255])}
    if rng.random() < 0.3:
        gwscript["connect"] = [None] + [rng.choice([None, {"k": "drop"}, {"k": "error", "status": 0x24},
                                                     {"k": "ok", "lat": 1.2}, {"k": "dup", "d": 0.3},
                                                     {"k": "ok+disconnect", "d": rng.choice([0.0, 0.0, 0.001])}])
                                        for _ in range(rng.randint(1, 5))]
    if long_run and rng.random() < 0.7:
        gwscript["connstate"] = [rng.choice([None, {"k": "drop"}, {"k": "error", "status": 0x21}])
                                 for _ in range(rng.randint(1, 8))]
    if rng.random() < 0.2:
        gwscript["ack"] = [rng.choice([None, {"k": "none"}]) for _ in range(6)]
    if rng.random() < 0.15:
        gwscript["disconnect"] = [rng.choice([None, {"k": "drop"}]) for _ in range(4)]
    policy = None
    if rng.random() < 0.3:
        policy = {"drop": rng.choice([0.0, 0.05, 0.15]), "dup": rng.choice([0.0, 0.1]), "delay": rng.choice([0.0, 0.1])}
    ops.sort(key=lambda o: o["t"])
    cfg = {"transport": transport, "mode": mode, "auto_reconnect": rng.random() < 0.75,
           "auto_reconnect_wait": rng.choice([1, 3]), "local_port": rng.choice([0, 53000]),
           "route_back": rng.random() < 0.2, "batch": 1 if rng.random() < 0.8 else 3, "horizon": horizon,
           # a one-shot listener ("wait until connected once") registered between the two recording callbacks: it
           # unregisters itself from inside its notification
           "oneshot_cb": rng.choice([None, None, "CONNECTED", "DISCONNECTED", "CONNECTING"]),
           # a listener registered between the two recording callbacks raises when it hears of this state
           "raising_cb": rng.choice([None, None, None, "CONNECTED", "DISCONNECTED", "CONNECTING"]),
           "shared_cb": rng.random() < 0.15}
    if transport in ("udp", "tcp") and mode == "bare" and rng.random() < 0.06:
        cfg["disc_in_first_connect"] = rng.choice([0, 0, 1, 2])
    if transport in ("tcp", "secure") and mode == "bare" and rng.random() < 0.08:
        # the TCP connection dies while the very first connect() still waits for its ConnectResponse: that attempt fails by
        # itself - nothing may go on connecting behind the caller's back after connect() raised
        cfg["loss_in_first_connect"] = rng.choice([0.05, 0.3, 0.8])
        gwscript["connect"] = [{"k": "drop"}] + (gwscript.get("connect") or [None])[1:]
    if rng.random() < 0.15 and ops:
        # threaded mode seen from the connection's side: state reports are handed to the main loop with
        # call_soon_threadsafe and applied there in order - later, while the main loop is busy (windows around the faults)
        cfg["main_loop_busy"] = [[round(max(0.0, o["t"] - rng.choice([0.0, 0.001, 0.2])), 6), rng.choice([0.05, 0.5, 3.0, 10.0])]
                                 for o in ops if o["op"] not in ("send", "send_cancel", "gw_restart")][:4]
    return {"seed": seed, "tier": "S" if cfg["batch"] == 1 else "P", "config": cfg, "ops": ops, "gw": gwscript,
            "fault_policy": policy}


class BusyMainLoop:
    """Stands in for the main loop of threaded mode (ConnectionManager._main_loop): callbacks handed over with
    call_soon_threadsafe run in order, one loop iteration later - or when the current busy window of the main loop ends."""

    def __init__(self, loop, R):
        self.loop, self.R = loop, R
        self.windows: list[tuple[float, float]] = []
        self.q: list[tuple[Any, tuple]] = []
        self.scheduled = False

    def call_soon_threadsafe(self, cb, *args):
        self.q.append((cb, args))
        if not self.scheduled:
            self.scheduled = True
            now = self.loop.time()
            due = next((b for (a, b) in self.windows if a <= now < b), now)
            if due > now:
                self.R.extra_faults["state_report_waits_for_busy_main_loop"] += 1
            self.loop.call_at(due, self._drain)

    def _drain(self):
        self.scheduled = False
        items, self.q = self.q, []
        for cb, args in items:
            cb(*args)


def run(plan: dict[str, Any]) -> dict[str, Any]:
    from xknx import XKNX
    from xknx.cemi import CEMIFrame
    from xknx.core import XknxConnectionState
    from xknx.exceptions import CommunicationError
    from xknx.io import ConnectionConfig, ConnectionType, SecureConfig
    from xknx.io.tunnel import SecureTunnel, TCPTunnel, UDPTunnel

    cfg = plan["config"]
    R = Run(plan, max_time=20000.0)
    loop, net = R.loop, R.net
    udp = cfg["transport"] == "udp"
    info: dict[str, Any] = {"disc_call": None, "disc_ret": None, "tunnel": None, "xknx": None,
                            "leftover_tasks": [], "final_state": None, "final_connected": None,
                            "probe": None, "faults_stopped_at": None, "gw_has_channel": None}

    def bus(cemi, ch):
        if cemi and cemi[0] == W.L_DATA_REQ:
            gw.send_request(ch.cid, bytes((W.L_DATA_CON,)) + cemi[1:])

    secure = cfg["transport"] == "secure"
    if secure:
        gw = SecureGateway(net, random.Random(plan["seed"] ^ 0xC25), script=dict(plan.get("gw") or {}), bus=bus)
    else:
        gw = SimGateway(net, script=dict(plan.get("gw") or {}), bus=bus)
    traces: list[list[str]] = [[], [], []]

    def mk_cb(i, xknx):
        def cb(state):
            traces[i].append(state.name)
            if i == 0:
                R.record("state", "client", state.name)
                if xknx.connection_manager.connected.is_set() != (state == XknxConnectionState.CONNECTED):
                    R.violate("C25.connected-flag", "connected.is_set()!=state",
                              f"in callback for {state.name}: connected.is_set()={xknx.connection_manager.connected.is_set()}")
        return cb

    async def main():
        if cfg["mode"] == "bare":
            xknx = XKNX()
            if udp:
                tunnel = UDPTunnel(xknx, cemi_received_callback=lambda raw: None, gateway_ip=gw.ip,
                                   gateway_port=gw.port, local_ip=net.local_ip, local_port=cfg["local_port"],
                                   route_back=cfg["route_back"], auto_reconnect=cfg["auto_reconnect"],
                                   auto_reconnect_wait=cfg["auto_reconnect_wait"])
            elif secure:
                tunnel = SecureTunnel(xknx, cemi_received_callback=lambda raw: None, gateway_ip=gw.ip,
                                      gateway_port=gw.port, auto_reconnect=cfg["auto_reconnect"],
                                      auto_reconnect_wait=cfg["auto_reconnect_wait"], user_id=2, user_password="user",
                                      device_authentication_password="dev")
            else:
                tunnel = TCPTunnel(xknx, cemi_received_callback=lambda raw: None, gateway_ip=gw.ip,
                                   gateway_port=gw.port, auto_reconnect=cfg["auto_reconnect"],
                                   auto_reconnect_wait=cfg["auto_reconnect_wait"])
        else:
            ctype = ConnectionType.TUNNELING if udp else (
                ConnectionType.TUNNELING_TCP_SECURE if secure else ConnectionType.TUNNELING_TCP)
            cc = ConnectionConfig(connection_type=ctype,
                                  gateway_ip=gw.ip, gateway_port=gw.port, local_ip=net.local_ip,
                                  local_port=cfg["local_port"], route_back=cfg["route_back"],
                                  auto_reconnect=cfg["auto_reconnect"], auto_reconnect_wait=cfg["auto_reconnect_wait"],
                                  secure_config=SecureConfig(user_id=2, user_password="user",
                                                             device_authentication_password="dev") if secure else None)
            xknx = XKNX(connection_config=cc)
            tunnel = None
        info["xknx"] = xknx
        busy = None
        if cfg.get("main_loop_busy"):
            busy = BusyMainLoop(loop, R)
            # ConnectionManager.register_loop() - what threaded mode calls - registers "the running loop": let it find
            # the stand-in there (public entry point; no private attribute of the manager is touched)
            import xknx.core.connection_manager as _cm
            _real = _cm.asyncio.get_running_loop
            _cm.asyncio.get_running_loop = lambda: busy
            try:
                await xknx.connection_manager.register_loop()
            finally:
                _cm.asyncio.get_running_loop = _real
        xknx.connection_manager.register_connection_state_changed_cb(mk_cb(0, xknx))
        if cfg.get("oneshot_cb"):
            unreg: list[Any] = [None]

            def oneshot(state):
                if state.name == cfg["oneshot_cb"] and unreg[0] is not None:
                    unreg[0]()
                    unreg[0] = None
                    R.extra_faults["one_shot_state_callback_unregistered_itself"] += 1

            unreg[0] = xknx.connection_manager.register_connection_state_changed_cb(oneshot)
        if cfg.get("raising_cb"):
            def raising(state):
                if state.name == cfg["raising_cb"]:
                    R.extra_faults["state_callback_raised"] += 1
                    raise RuntimeError("scripted failure of a connection state listener")
            xknx.connection_manager.register_connection_state_changed_cb(raising)
        xknx.connection_manager.register_connection_state_changed_cb(mk_cb(1, xknx))
        if cfg.get("shared_cb"):
            # two consumers of the application register the same callable (a method of a shared object); one of them
            # unregisters again at once - the other one's registration stays and hears of every change
            shared = mk_cb(2, xknx)
            un_a = xknx.connection_manager.register_connection_state_changed_cb(shared)
            xknx.connection_manager.register_connection_state_changed_cb(shared)
            un_a()
            R.extra_faults["same_callable_registered_by_two_consumers"] += 1
        if cfg.get("loss_in_first_connect"):
            def lose():
                for c_ in net.tcp_conns:
                    if c_.open:
                        c_.server_close(None)
                        gw.on_close(c_)
                        R.extra_faults["tcp_lost_during_first_connect"] += 1
            loop.after(cfg["loss_in_first_connect"], lose, label="op")
        if cfg.get("disc_in_first_connect") is not None and tunnel is not None:
            # another task of the application calls disconnect() while the very first connect() is under way: in the loop
            # iteration in which the ConnectResponse is read from the socket (just before it, or k iterations later)
            async def early_disc():
                info["disc_call"] = R.record("op_call", "user", "disconnect")
                R.extra_faults["user_disconnect_during_first_connect"] += 1
                try:
                    await tunnel.disconnect()
                except CommunicationError:
                    R.probes["disconnect_raised_comm_error"] += 1
                info["disc_ret"] = R.record("op_return", "user", "disconnect")
                info["early_disc_ret"] = info["disc_ret"]

            def pre(kind, receiver, data):
                h = W.parse_header(bytes(data))
                if h and h[0] == W.CONNECT_RES and not info.get("early_disc"):
                    info["early_disc"] = True
                    k_ = cfg["disc_in_first_connect"]
                    if k_ == 0:
                        tasks0.append(loop.create_task(early_disc()))
                    else:
                        loop.soon_iters(k_, lambda: tasks0.append(loop.create_task(early_disc())), label="op")
            tasks0: list[asyncio.Task] = []
            net.pre_deliver = pre
        try:
            if tunnel is not None:
                await tunnel.connect()
            else:
                await xknx.start()
                tunnel = xknx.knxip_interface._interface
        except CommunicationError:
            R.probes["initial_connect_failed"] += 1
            net.pre_deliver = None
            info["disc_ret"] = R.record("op_return", "user", "connect_failed")
            info["disc_call"] = info["disc_ret"]
            info["tunnel"] = tunnel
            await asyncio.sleep(250.0)
            await finish(xknx, tunnel, [])
            return
        info["tunnel"] = tunnel
        net.pre_deliver = None
        t0 = loop.time()
        if busy is not None:
            busy.windows = [(t0 + a, t0 + a + d) for (a, d) in cfg["main_loop_busy"]]
        tasks: list[asyncio.Task] = []
        pid = [0]

        async def do_send():
            pid[0] += 1
            raw = W.cemi_ldata(W.L_DATA_REQ, 0, GA, tpci_apci=W.gv_write(pid[0].to_bytes(2, "big")))
            try:
                await tunnel.send_cemi(CEMIFrame.from_knx(raw))
                R.record("op_return", "user", "send:ok")
            except CommunicationError:
                R.record("op_return", "user", "send:comm_error")

        async def user_disconnect():
            if info["disc_call"] is not None:
                return
            info["disc_call"] = R.record("op_call", "user", "disconnect")
            R.extra_faults["user_disconnect"] += 1
            try:
                if cfg["mode"] == "bare":
                    await tunnel.disconnect()
                else:
                    await xknx.stop()
            except CommunicationError:
                R.probes["disconnect_raised_comm_error"] += 1
            info["disc_ret"] = R.record("op_return", "user", "disconnect")

        def do(op):
            k = op["op"]
            if k == "send":
                tasks.append(loop.create_task(do_send()))
            elif k == "send_cancel":
                tk = loop.create_task(do_send())
                tasks.append(tk)
                R.extra_faults["send_cancelled_by_caller"] += 1
                loop.at(loop.time() + op["d"], tk.cancel, label="op")
            elif k == "srv_disconnect":
                if gw.server_disconnect() is not None:
                    R.extra_faults["srv_disconnect"] += 1
            elif k == "srv_disconnect_foreign":
                if gw.last_cid in gw.channels:
                    gw.server_disconnect(wire_cid=(gw.last_cid % 255) + 1)
                    R.extra_faults["srv_disconnect_foreign"] += 1
            elif k == "cross":
                cid = gw.last_cid
                ch = gw.channels.get(cid)
                if ch is None:
                    return
                fr = W.disconnect_request(cid, W.hpai(gw.ip, gw.port, tcp=not udp))
                if udp:
                    gw.sock.sendto(fr, ch.ctrl, lat=op["lat"], nofault=True)
                else:
                    gw._reply(ch.via, fr, lat=op["lat"])      # wrapped for a secure session
                del gw.channels[cid]
                R.extra_faults["cross_disconnect"] += 1
                when = loop.time() + op["lat"] + op["off"]
                loop.at(when, lambda: loop.soon_iters(op["iters"], lambda: tasks.append(loop.create_task(user_disconnect()))),
                        label="cross")
            elif k == "gw_crash":
                gw.crash()
                R.extra_faults["gw_crash"] += 1
            elif k == "gw_restart":
                gw.restart()
            elif k in ("tcp_reset", "tcp_close"):
                for c in net.tcp_conns:
                    if c.open:
                        c.server_close(ConnectionResetError(104, "reset") if k == "tcp_reset" else None)
                        R.extra_faults[k] += 1
                        gw.on_close(c)
            elif k == "user_disconnect":
                tasks.append(loop.create_task(user_disconnect()))

        for op in plan["ops"]:
            loop.at(t0 + op["t"], (lambda o=op: do(o)), label="op")
        await asyncio.sleep(cfg["horizon"] + 0.5)
        # ---- faults stop
        gw.restart()
        gw.script = {}
        R.faults.active = False
        info["faults_stopped_at"] = loop.time()
        R.record("faults_stop", "harness", "")
        await asyncio.sleep(70.0 + 4 * 10.0 + cfg["auto_reconnect_wait"] + 5.0 + 130.0)
        await finish(xknx, tunnel, tasks)

    async def finish(xknx, tunnel, tasks):
        info["final_state"] = xknx.connection_manager.state.name
        info["final_connected"] = xknx.connection_manager.connected.is_set()
        if tunnel is not None:
            info["gw_has_channel"] = tunnel.communication_channel in gw.channels
        # quiescence probe: a CONNECTED tunnel must carry a telegram
        if info["disc_call"] is None and info["final_state"] == "CONNECTED" and tunnel is not None:
            raw = W.cemi_ldata(W.L_DATA_REQ, 0, GA, tpci_apci=W.gv_write(b"\xff\xff"))
            try:
                async with asyncio.timeout(30):
                    await tunnel.send_cemi(CEMIFrame.from_knx(raw))
                info["probe"] = "ok"
            except CommunicationError as exc:
                info["probe"] = f"comm_error:{exc}"
            except TimeoutError:
                info["probe"] = "timeout"
        me = asyncio.current_task()
        left = []
        for t in asyncio.all_tasks(loop):
            if t is me or t.done():
                continue
            if t in tasks:
                R.probes["user_op_still_pending_at_end"] += 1
                continue
            left.append(t.get_coro().__qualname__ if t.get_coro() is not None else "?")
        info["leftover_tasks"] = sorted(left)
        if info["disc_call"] is None:
            # clean up quietly (not judged)
            try:
                if cfg["mode"] == "bare":
                    await tunnel.disconnect()
                else:
                    await xknx.stop()
            except Exception:  # pylint: disable=broad-except
                pass

    R.execute(main())
    if secure:
        # the lifecycle clauses are judged on the frames inside the session: unwrap both directions with the keys the
        # gateway negotiated (independent crypto); session-level frames stay as they are
        plain_events = []
        for (n, t, it, kind, actor, detail) in R.events:
            if kind in ("tcp_out", "tcp_in"):
                s_ = gw.sessions.get(int(actor)) if str(actor).isdigit() else None
                out = b""
                for (svc, body) in W.split_all(bytes.fromhex(detail)):
                    fr = W.frame(svc, body)
                    if svc == W.SECURE_WRAPPER and s_ is not None and s_.key is not None:
                        u = C.unwrap(s_.key, fr)
                        if u is not None:
                            fr = u["plain"]
                    out += fr
                detail = out.hex()
            plain_events.append((n, t, it, kind, actor, detail))
        R.events[:] = plain_events
    abstract = oracle(R, plan, info, traces, udp)
    R.extra_faults.update(gw.fired)
    fired = sum(R.faults.fired.values()) + sum(R.extra_faults.values())
    return R.result(nontrivial=fired > 0, abstract=abstract)


def oracle(R: Run, plan, info, traces, udp):
    cfg = plan["config"]
    client_ip = R.net.local_ip
    abstract: list[Any] = []
    connect_reqs: list[tuple[int, float]] = []
    connect_res_ok: list[tuple[int, float]] = []
    any_connect_res: list[tuple[int, float]] = []
    after_disc: list[str] = []
    behind_disc_req: list[str] = []
    user_disc_frame = [False]
    tcp_pending = 0
    tcp_open = 0
    disc_ret = info["disc_ret"]
    for (n, t, it, kind, actor, detail) in R.events:
        from_client = (kind == "udp_out" and str(actor).startswith(client_ip + ":")) or kind == "tcp_out"
        to_client = (kind == "udp_in" and f">{client_ip}:" in str(actor)) or kind == "tcp_in"
        if from_client or to_client:
            data = bytes.fromhex(detail)
            while len(data) >= 6:
                h = W.parse_header(data)
                if not h or h[1] < 6:
                    break
                fr, data = data[:h[1]], data[h[1]:]
                name = W.SVC_NAMES.get(h[0], hex(h[0]))
                if from_client:
                    abstract.append(("out", name))
                    if disc_ret is not None and n > disc_ret:
                        after_disc.append(f"{name}")
                    if (cfg["mode"] == "bare" and info["disc_call"] is not None and n > info["disc_call"]
                            and info["disc_call"] != info["disc_ret"]):
                        # the tunnel's own disconnect() was called: it closes the channel with its DisconnectRequest - from
                        # there on only that handshake and acknowledgements of frames still arriving may leave the client
                        if h[0] == W.DISCONNECT_REQ:
                            user_disc_frame[0] = True
                        elif user_disc_frame[0] and h[0] in (W.TUNNEL_REQ, W.CONNECT_REQ, W.CONNSTATE_REQ):
                            behind_disc_req.append(name)
                    if h[0] == W.CONNECT_REQ:
                        connect_reqs.append((n, t))
                else:
                    if h[0] == W.CONNECT_RES:
                        any_connect_res.append((n, t))
                        if fr[7] == 0:
                            connect_res_ok.append((n, t))
                            abstract.append(("in", "CONNECT_RES_OK"))
                    elif h[0] == W.DISCONNECT_REQ:
                        abstract.append(("in", name))
        elif kind == "tcp_connect":
            abstract.append(("tcp_connect",))
            if disc_ret is not None and n > disc_ret:
                after_disc.append("tcp_connect")
            if tcp_pending > 0 or tcp_open > 0:
                R.violate("C25.one-reconnect-at-a-time", "overlapping-tcp-connections",
                          f"TCP connect at {t} while {tcp_pending} attempts pending and {tcp_open} connections open")
            tcp_pending += 1
        elif kind == "tcp_open":
            tcp_pending -= 1
            tcp_open += 1
        elif kind == "tcp_refused":
            tcp_pending -= 1
        elif kind in ("tcp_client_close", "tcp_lost"):
            tcp_open = max(0, tcp_open - 1)
        elif kind == "state":
            abstract.append(("state", detail))
        elif kind in ("op_call", "op_return"):
            abstract.append((kind, detail))
    # (a) connect attempts never overlap (UDP and TCP): outstanding = until a response is delivered or 1 s passed
    for (n1, t1), (n2, t2) in zip(connect_reqs, connect_reqs[1:]):
        if t2 - t1 >= 1.0 - 1e-9:
            continue
        if any(n1 < nr < n2 for (nr, _) in any_connect_res):
            continue
        R.violate("C25.one-reconnect-at-a-time", "overlapping-connect-requests",
                  f"ConnectRequests at {t1:.6f} and {t2:.6f} with no response in between")
    if behind_disc_req:
        R.violate("C25.nothing-after-disconnect", "sent-behind-own-disconnect-request:" + behind_disc_req[0],
                  f"after disconnect() was called and its DisconnectRequest had left, the client still sent {behind_disc_req[:6]}")
    # (b) after the user's disconnect returned
    if disc_ret is not None:
        if after_disc:
            R.violate("C25.nothing-after-disconnect", "sent:" + after_disc[0],
                      f"after disconnect() returned the client still sent/attempted: {after_disc[:6]}")
        if info["final_state"] != "DISCONNECTED":
            R.violate("C25.nothing-after-disconnect", f"final-state={info['final_state']}",
                      f"state {info['final_state']} at the end of a run whose user disconnect had returned")
        if info["final_connected"]:
            R.violate("C25.nothing-after-disconnect", "connected-flag-set", "connected event set after user disconnect")
        if info["leftover_tasks"]:
            R.violate("C25.nothing-after-disconnect", "task-alive:" + info["leftover_tasks"][0],
                      f"library tasks alive long after disconnect: {info['leftover_tasks']}")
    elif info["disc_call"] is not None:
        R.probes["user_disconnect_never_returned"] += 1
        R.violate("C25.nothing-after-disconnect", "disconnect-never-returned",
                  "the user's disconnect()/stop() did not return within the run")
    # (c) callback trace
    tr = traces[0]
    for a, b in zip(tr, tr[1:]):
        if a == b:
            R.violate("C25.state-callbacks", "duplicate-consecutive-state", f"{a} notified twice in a row")
    if traces[0] != traces[1]:
        R.violate("C25.state-callbacks", "callbacks-disagree", f"{traces[0]} vs {traces[1]}")
    if cfg.get("shared_cb") and traces[0] != traces[2]:
        R.violate("C25.state-callbacks", "callbacks-disagree:callable-registered-twice",
                  f"{traces[0]} vs {traces[2]} (the callable two consumers had registered, one of them unregistered)")
    xknx = info["xknx"]
    if xknx is not None and tr:
        if (tr[-1] == "CONNECTED") != bool(info["final_connected"]) and info["final_state"] == tr[-1]:
            R.violate("C25.connected-flag", "final-flag!=last-state", f"last state {tr[-1]}, connected={info['final_connected']}")
    # (d) CONNECTED only at the instant a successful ConnectResponse is consumed
    state_events = [(n, t, d) for (n, t, it, k, a, d) in R.events if k == "state"]
    for (n, t, d) in state_events:
        if d == "CONNECTED" and not cfg.get("main_loop_busy"):     # (reports reach a busy main loop later)
            if not any(abs(tr_ - t) < 1e-9 and nr < n for (nr, tr_) in connect_res_ok):
                R.violate("C25.connected-means-established", "connected-without-connect-response",
                          f"state CONNECTED at {t} without a successful ConnectResponse delivered at that instant")
    # at quiescence
    if info["disc_call"] is None and info["final_state"] is not None:
        if info["final_state"] == "CONNECTED":
            if info["gw_has_channel"] is False:
                R.violate("C25.connected-means-established", "state=CONNECTED&&no_channel",
                          "CONNECTED at quiescence but the gateway holds no channel for this client")
            elif info["probe"] not in (None, "ok") and any(o["op"] == "send_cancel" for o in plan["ops"]):
                # a send abandoned by its caller after its frame went out unacknowledged has used up its sequence counter
                # (the gateway may have got it); when it had not, the next frame is out of sequence and the tunnel gives up
                # on it (failed twice -> reconnect / shutdown): the tunnel was established all the same - unjudged
                R.probes["probe_failed_after_a_send_abandoned_by_its_caller(unjudged)"] += 1
            elif info["probe"] not in (None, "ok"):
                R.violate("C25.connected-means-established", "state=CONNECTED&&probe-failed",
                          f"CONNECTED at quiescence but a probe telegram failed: {info['probe']}")
        elif cfg["auto_reconnect"] and R.probes["initial_connect_failed"] == 0:
            R.violate("C25.liveness", f"not-connected-after-faults-stop:{info['final_state']}",
                      f"auto_reconnect on, faults stopped {R.loop.time() - info['faults_stopped_at']:.0f}s ago, state {info['final_state']}")
    return abstract
