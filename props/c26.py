"""C26 — heartbeat gives up exactly after four consecutive failures.

W-HB: the real ConnectionHeartbeat with a scripted `send_connectionstate`
(constructor-injected callable - an existing seam).  All outcome sequences over
{S success, E error status, T no response (10 s), X raises, N connection gone}
are enumerated up to a length (pruned by termination); further seeded runs add
stop()/start() at arbitrary instants, and a W-TUN variant produces the same
outcomes through a gateway that drops or falsifies ConnectionStateResponses.
Oracle: reference automaton (DESIGN Appendix B.2) with exact virtual times.
"""

from __future__ import annotations

import asyncio
import functools
import random
from typing import Any

from sim import shadow as SH
from sim import wire as W
from sim.gateway import SimGateway
from sim.world import Run

ID = "C26"
LEVEL = "fault_enumeration"
EXHAUSTIVE = ["all heartbeat outcome sequences over {S,E,T,X,N} up to length 8 (quick) / 12 (thorough), pruned by termination"]
RULE = ("indices below the enumeration size = the i-th outcome sequence over {S,E,T,X,N} (complete enumeration to the "
        "stated length); above = seeded runs with stop()/start() placed at arbitrary instants and a real UDP/TCP "
        "tunnel whose gateway drops/falsifies ConnectionStateResponses; non-trivial = at least one non-success "
        "outcome or a stop/start; distinct = distinct (outcome sequence, op placement class)")
REAL = ["xknx.io.data_connection.ConnectionHeartbeat", "xknx.io.tunnel.UDPTunnel/TCPTunnel (tunnel variant)",
        "xknx.io.request_response.ConnectionState (tunnel variant)"]
STUB = ["send_connectionstate outcomes (scripted callable) in W-HB", "gateway (SimGateway) in the tunnel variant",
        "loop clock/selector (SimLoop)"]
ASSUMPTIONS = ["HEARTBEAT_RATE=70 s, CONNECTIONSTATE_REQUEST_TIMEOUT=10 s as in xknx/io/const.py (read at run time)"]
LMAX = {"quick": 8, "thorough": 12}
EXTRA = {"quick": 30000, "thorough": 1800000}
CHUNK = 2000


@functools.lru_cache(maxsize=None)
def _enum(L: int) -> tuple[str, ...]:
    out: list[str] = []

    def rec(seq: str, fails: int):
        if len(seq) == L:
            out.append(seq)
            return
        for o in "SETXN":
            s = seq + o
            if o in "XN":
                out.append(s)
            elif o == "S":
                rec(s, 0)
            elif fails + 1 == 4:
                out.append(s)
            else:
                rec(s, fails + 1)

    rec("", 0)
    return tuple(out)


class _Runs(dict):
    def __getitem__(self, tier):
        return len(_enum(LMAX[tier])) + EXTRA[tier]


RUNS = _Runs()
BUDGET = {"quick": 100.0, "thorough": 3300.0}


def gen_index(i: int, seed: int, tier: str) -> dict[str, Any]:
    seqs = _enum(LMAX[tier])
    if i < len(seqs):
        return {"seed": seed, "tier": "S", "config": {"mode": "hb"}, "outcomes": seqs[i], "ops": []}
    rng = random.Random(seed)
    if rng.random() < 0.5:
        n = rng.randint(1, 10)
        outcomes = "".join(rng.choices("SETXN", [5, 2, 2, 0.5, 0.5], k=n))
        ops = []
        for _ in range(rng.randint(1, 3)):
            base = rng.choice([0.0, 35.0, 69.999, 70.0, 70.001, 75.0, 80.0, 140.0, 150.0, 200.0])
            ops.append({"t": round(base + rng.choice([0.0, 0.0, 1e-6, 0.5, 5.0]), 6),
                        "op": rng.choice(["stop", "start", "start", "restart"])})
        ops.sort(key=lambda o: o["t"])
        # (a second heartbeat of the same name - every tunnel names its heartbeat alike - is alive in the same process and
        # always gets its answers)
        return {"seed": seed, "tier": "S", "config": {"mode": "hb", "shadow": rng.random() < 0.2}, "outcomes": outcomes, "ops": ops}
    n = rng.randint(1, 8)
    beh = []
    for _ in range(n):
        k = rng.choices(["ok", "drop", "error", "late", "foreign"], [5, 3, 2, 1, 2])[0]
        b: dict[str, Any] = {"k": k}
        if k == "error":
            b["status"] = rng.choice([0x21, 0x26, 0x27])
        if k == "late":
            b = {"k": "ok", "lat": rng.choice([5.0, 9.999, 10.0005, 12.0])}
        beh.append(b)
    return {"seed": seed, "tier": "S",
            "config": {"mode": "tunnel", "transport": rng.choice(["udp", "udp", "tcp"]),
                       "auto_reconnect": rng.random() < 0.7,
                       # a second tunnel (own XKNX object, own gateway) lives in the same process meanwhile
                       "shadow": rng.random() < 0.2},
            "gw": {"connstate": beh, "first_channel": rng.choice([1, 1, 0, 255])}, "ops": []}


def gen(seed: int, tier: str) -> dict[str, Any]:
    return gen_index(10 ** 9, seed, tier)


# ---------------------------------------------------------------------------------------------
def run(plan):
    if plan["config"]["mode"] == "hb":
        return run_hb(plan)
    return run_tunnel(plan)


def run_hb(plan):
    from xknx.exceptions import CommunicationError
    from xknx.io.const import CONNECTIONSTATE_REQUEST_TIMEOUT as TO, HEARTBEAT_RATE as RATE
    from xknx.io.data_connection import ConnectionHeartbeat

    R = Run(plan, max_time=20000.0)
    loop = R.loop
    outcomes = plan["outcomes"]
    pos = [0]
    calls: list[tuple[float, str]] = []

    async def send_connectionstate():
        i = pos[0]
        pos[0] += 1
        o = outcomes[i] if i < len(outcomes) else "N"
        calls.append((loop.time(), "req:" + o))
        R.record("req", "hb", o)
        if o == "S":
            return True, None
        if o == "E":
            return False, "E_CONNECTION_ID"
        if o == "T":
            await asyncio.sleep(TO)
            return False, None
        if o == "X":
            raise CommunicationError("scripted")
        return None

    async def on_failure():
        calls.append((loop.time(), "fail"))
        R.record("on_failure", "hb", "")

    ops = plan.get("ops") or []
    t_end_ops = max([o["t"] for o in ops], default=0.0)

    async def main():
        hb = ConnectionHeartbeat("sim", send_connectionstate, on_failure)
        t0 = loop.time()
        hb2 = None
        if plan["config"].get("shadow"):
            async def always_ok():
                await asyncio.sleep(0.01)
                return True, None

            async def never():
                return None
            hb2 = ConnectionHeartbeat("sim", always_ok, never)
            hb2.start()
            await asyncio.sleep(RATE / 3)       # its beats fall between those of the judged one
            t0 = loop.time()
            R.extra_faults["second_heartbeat_of_the_same_name_alive"] += 1
        hb.start()
        calls.append((t0, "start"))

        def do(op):
            k = op["op"]
            R.record("op", "user", k)
            if k in ("stop", "restart"):
                hb.stop()
                calls.append((loop.time(), "stop"))
                R.extra_faults["user_stop"] += 1
            if k in ("start", "restart"):
                hb.start()
                calls.append((loop.time(), "start"))
                R.extra_faults["user_start"] += 1

        for op in ops:
            loop.at(t0 + op["t"], (lambda o=op: do(o)), label="op")
        horizon = t_end_ops + (len(outcomes) + 2) * (RATE + 4 * TO) + 5
        await asyncio.sleep(horizon)
        hb.stop()
        if hb2 is not None:
            hb2.stop()
        calls.append((loop.time(), "end"))
        await asyncio.sleep(RATE * 2 + 1)   # nothing may be sent after stop()

    R.execute(main())
    # ---------------- reference automaton over the same outcome script and op times
    expected = model_hb(calls, outcomes, RATE, TO)
    observed = [(round(t, 6), k) for (t, k) in calls if k.startswith("req") or k == "fail"]
    exp = [(round(t, 6), k) for (t, k) in expected]
    if observed != exp:
        # find the first difference to name the clause
        i = 0
        while i < len(observed) and i < len(exp) and observed[i] == exp[i]:
            i += 1
        got = observed[i] if i < len(observed) else None
        want = exp[i] if i < len(exp) else None
        if want is None:
            sig = "extra-" + (got[1].split(":")[0])
            clause = "C26.stops-quietly" if got[1].startswith("req") else "C26.on-failure-once"
        elif got is None:
            sig = "missing-" + want[1].split(":")[0]
            clause = "C26.gives-up-after-four" if want[1] == "fail" else "C26.period-and-repeats"
        elif got[1] != want[1]:
            sig = f"{want[1].split(':')[0]}-expected-got-{got[1].split(':')[0]}"
            clause = "C26.gives-up-after-four"
        else:
            sig = "wrong-time"
            clause = "C26.period-and-repeats"
        R.violate(clause, sig, f"step {i}: observed {got}, reference {want}; outcomes={outcomes} ops={plan.get('ops')}")
    nontrivial = any(c in outcomes for c in "ETXN") or bool(ops)
    for c in "SETXN":
        R.extra_faults["outcome_" + c] += sum(1 for (t, k) in calls if k == "req:" + c)
    abstract = [outcomes[:pos[0]]] + [(o["op"], _phase(o["t"])) for o in ops]
    return R.result(nontrivial=nontrivial, abstract=abstract)


def _phase(t: float) -> str:
    r = t % 70.0
    return f"{int(t // 70)}:{'edge' if r < 1e-3 or r > 69.99 else 'mid'}"


def model_hb(calls, outcomes, RATE, TO):
    """Reference: replays the user's start/stop instants and the outcome script."""
    marks = [(t, k) for (t, k) in calls if k in ("start", "stop", "end")]
    exp: list[tuple[float, str]] = []
    pos = 0
    # each "start" begins an independent automaton that lives until the next stop/start/end mark
    for idx, (t0, k) in enumerate(marks):
        if k != "start":
            continue
        t_limit = marks[idx + 1][0] if idx + 1 < len(marks) else float("inf")
        t = t0
        alive = True
        while alive:
            t += RATE
            if t >= t_limit and not _before(t, t_limit):
                break
            fails = 0
            while True:
                if not _before(t, t_limit):
                    alive = False
                    break
                o = outcomes[pos] if pos < len(outcomes) else "N"
                pos += 1
                exp.append((t, "req:" + o))
                if o == "N":
                    alive = False
                    break
                if o == "X":
                    # a raise is reported immediately, unless the heartbeat was stopped in the same instant
                    exp.append((t, "fail"))
                    alive = False
                    break
                if o == "S":
                    break
                if o == "T":
                    t += TO
                    if not _before(t, t_limit):
                        # cancelled while waiting for the response
                        alive = False
                        break
                fails += 1
                if fails == 4:
                    exp.append((t, "fail"))
                    alive = False
                    break
    return exp


def _before(t, limit):
    return t < limit - 1e-9


# ---------------------------------------------------------------------------------------------
def run_tunnel(plan):
    from xknx import XKNX
    from xknx.core import XknxConnectionState
    from xknx.exceptions import CommunicationError
    from xknx.io.tunnel import TCPTunnel, UDPTunnel

    cfg = plan["config"]
    R = Run(plan, max_time=20000.0)
    loop, net = R.loop, R.net
    gw = SimGateway(net, script=dict(plan.get("gw") or {}))
    states: list[tuple[float, str]] = []
    n_beh = len((plan.get("gw") or {}).get("connstate") or [])

    async def main():
        xknx = XKNX()
        xknx.connection_manager.register_connection_state_changed_cb(
            lambda s: (states.append((loop.time(), s.name)), R.record("state", "client", s.name)))
        if cfg["transport"] == "udp":
            tunnel = UDPTunnel(xknx, cemi_received_callback=lambda raw: None, gateway_ip=gw.ip, gateway_port=gw.port,
                               local_ip=net.local_ip, auto_reconnect=cfg["auto_reconnect"], auto_reconnect_wait=1)
        else:
            tunnel = TCPTunnel(xknx, cemi_received_callback=lambda raw: None, gateway_ip=gw.ip, gateway_port=gw.port,
                               auto_reconnect=cfg["auto_reconnect"], auto_reconnect_wait=1)
        await tunnel.connect()
        sh = None
        if cfg.get("shadow"):
            sh = SH.start(R, SH.udp_tunnel_life(R, horizon=(n_beh + 2) * 115.0 - 5.0, seed=plan["seed"],
                                                first_channel=(plan.get("gw") or {}).get("first_channel", 1), period=40.0,
                                                start_after=7.0, reconnects=0))
        await asyncio.sleep((n_beh + 2) * 115.0)
        await SH.finish(sh)
        try:
            await tunnel.disconnect()
        except CommunicationError:
            pass
        await asyncio.sleep(150.0)

    R.execute(main())
    oracle_tunnel(R, states, cfg)
    R.extra_faults.update(gw.fired)
    return R.result(nontrivial=sum(gw.fired.values()) > 0,
                    abstract=[(b or {}).get("k") for b in (plan.get("gw") or {}).get("connstate") or []]
                    + [cfg["transport"], cfg["auto_reconnect"]])


def oracle_tunnel(R: Run, states, cfg):
    """Wire-level automaton: per connection epoch, ConnectionStateRequests follow B.2."""
    client_ip = R.net.local_ip
    tcp = cfg["transport"] == "tcp"
    ev = []  # (t, kind, payload)
    for (n, t, it, kind, actor, detail) in R.events:
        if (kind == "tcp_out" and tcp) or (kind == "udp_out" and not tcp and str(actor).startswith(client_ip + ":")):
            data = bytes.fromhex(detail)
            while len(data) >= 6:
                h = W.parse_header(data)
                if not h or h[1] < 6:
                    break
                fr, data = data[:h[1]], data[h[1]:]
                if h[0] == W.CONNSTATE_REQ:
                    ev.append((t, "req", fr[6]))
                elif h[0] == W.CONNECT_REQ:
                    ev.append((t, "connect_req", None))
                elif h[0] == W.DISCONNECT_REQ:
                    ev.append((t, "disconnect_req", fr[6]))
        elif (kind == "tcp_in" and tcp) or (kind == "udp_in" and not tcp and f">{client_ip}:" in str(actor)):
            data = bytes.fromhex(detail)
            while len(data) >= 6:
                h = W.parse_header(data)
                if not h or h[1] < 6:
                    break
                fr, data = data[:h[1]], data[h[1]:]
                if h[0] == W.CONNSTATE_RES:
                    ev.append((t, "res", (fr[6], fr[7])))
                elif h[0] == W.CONNECT_RES and fr[7] == 0:
                    ev.append((t, "connected", fr[6]))
        elif kind == "state":
            ev.append((t, "state", detail))
    RATE, TO = 70.0, 10.0
    # walk epochs
    i = 0
    n_ev = len(ev)
    while i < n_ev:
        t, k, p = ev[i]
        i += 1
        if k != "connected":
            continue
        chan = p
        t_cycle = t          # heartbeat (re)started at the instant the response is consumed
        fails = 0
        pending = None       # time of outstanding request
        expect_at = t_cycle + RATE
        lost = False
        j = i
        while j < n_ev:
            t2, k2, p2 = ev[j]
            if k2 in ("connect_req", "connected") or (k2 == "disconnect_req"):
                break
            if k2 == "req":
                if lost:
                    R.violate("C26.stops-quietly", "request-after-loss", f"ConnectionStateRequest at {t2} after the connection was declared lost")
                if pending is not None:
                    # previous request got no (timely) response: must be >= TO later
                    if abs(t2 - (pending + TO)) > 1e-6:
                        R.violate("C26.period-and-repeats", "repeat-not-at-timeout",
                                  f"request at {t2}, previous unanswered request at {pending}")
                    fails += 1
                elif abs(t2 - expect_at) > 1e-6:
                    R.violate("C26.period-and-repeats", "wrong-time",
                              f"request at {t2}, reference {expect_at} (fails={fails})")
                if fails >= 4:
                    R.violate("C26.gives-up-after-four", "fifth-request", f"request #{fails + 1} in a row at {t2}")
                pending = t2
            elif k2 == "res" and pending is not None and p2[0] == chan and t2 - pending < TO - 1e-9:
                if p2[1] == 0:
                    fails = 0
                    expect_at = t2 + RATE
                    R.probes["hb_success"] += 1
                else:
                    fails += 1
                    expect_at = t2
                    R.probes["hb_error_status"] += 1
                pending = None
                if fails == 4:
                    lost = True
            j += 1
        # end of epoch: if the epoch ended by itself (disconnect_req/connect_req) check that 4 failures happened
        if j < n_ev and ev[j][1] in ("disconnect_req", "connect_req"):
            t_end = ev[j][0]
            if pending is not None and abs(t_end - (pending + TO)) < 1e-6:
                fails += 1
            if fails == 4:
                R.probes["gave_up_after_four"] += 1
            elif fails != 0 or pending is not None:
                # user disconnect at the end of the run also produces disconnect_req: only flag early give-ups
                if t_end < R.events[-1][1] - 200.0:
                    R.violate("C26.gives-up-after-four", f"gave-up-after-{fails}",
                              f"connection closed at {t_end} after {fails} consecutive failures")
        i = j
    # exactly one loss per give-up: DISCONNECTED state entered once between CONNECTED states
    prev = None
    for (t, s) in states:
        if s == prev:
            R.violate("C26.on-failure-once", "duplicate-state", f"{s} reported twice in a row at {t}")
        prev = s
