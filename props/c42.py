"""C42 — timed resets and press counters behave as configured.

W-RUN: real BinarySensor(reset_after, context_timeout) and Switch(reset_after)
inside a started XKNX over the stub interface; on/off telegram histories with
gaps from {0, <, =, > the configured time}.  Oracle: reference timers/counters
computed from the telegram times.
"""

from __future__ import annotations

import asyncio
import random
from typing import Any

from sim import wire as W
from sim.runworld import make_xknx
from sim.world import Run

ID = "C42"
LEVEL = "exploration"
RUNS = {"quick": 40000, "thorough": 3000000}
BUDGET = {"quick": 100.0, "thorough": 3300.0}
RULE = ("one run = one BinarySensor or Switch with seeded reset_after / context_timeout and a seeded on/off telegram history "
        "whose gaps are drawn relative to the configured time (0, fraction, exactly, just above, far above); non-trivial = "
        "at least one 'on' followed by a gap shorter than reset_after, or a burst of >=2 same-state telegrams; distinct = "
        "distinct (device kind, gap class sequence, state sequence)")
REAL = ["xknx.devices.BinarySensor", "xknx.devices.Switch", "xknx.remote_value.RemoteValueSwitch",
        "xknx.core.TaskRegistry/Task", "xknx.core.TelegramQueue", "xknx.cemi.CEMIHandler"]
STUB = ["KNXIPInterface (StubInterface)", "wall clock (time.time seam in binary_sensor)", "loop (SimLoop)"]
ASSUMPTIONS = ["gaps within 1e-5 s of the configured time, and bursts of mixed on/off states, are unjudged",
               "wall clock and loop clock run at the same rate (a wall-clock step is not part of the statement)"]
GA_S = W.ga(6, 0, 1)


def gen(seed: int, tier: str) -> dict[str, Any]:
    rng = random.Random(seed)
    kind = rng.choice(["bs_reset", "bs_counter", "switch_reset", "bs_both"])
    reset = rng.choice([0.5, 1.0, 3.0, 10.0])
    ctx = rng.choice([0.3, 1.0, 2.0])
    ref = ctx if kind == "bs_counter" else reset
    n = rng.choice([1, 2, 4, 8, 15])
    mix = rng.random() < 0.35      # contexts in which both states are set several times
    tgs = []
    t = 0.1
    for i in range(n):
        g = rng.choice(["zero", "tiny", "half", "near-", "eq", "near+", "far", "far"])
        if g == "zero" and tgs and tgs[-1].get("iters"):
            g = "tiny"      # a telegram placed some iterations into its instant stays the last one of that instant
        gap = {"zero": 0.0, "tiny": 0.001, "half": ref * 0.5, "near-": ref - 0.001, "eq": ref, "near+": ref + 0.001,
               "far": ref * 2.5 + 0.2}[g]
        if i:
            t += gap
        if kind == "bs_counter" and mix:
            v = (1 - tgs[-1]["v"]) if tgs and rng.random() < 0.4 else (tgs[-1]["v"] if tgs else rng.choice([0, 1]))
        elif kind == "bs_counter":
            v = rng.choice([1, 1, 1, 0]) if rng.random() < 0.3 else (tgs[-1]["v"] if tgs else 1)
        else:
            v = rng.choice([1, 1, 1, 0])
        tg = {"t": round(t, 6), "v": v, "g": g if i else "first"}
        if g == "eq" and i:
            # exactly one reset / context time after the previous telegram - the instant its timer expires - and 0..3 loop
            # iterations into that instant (before / after the timer's own task has run and finished)
            tg["iters"] = rng.choice([0, 0, 1, 2, 3])
            # ... handed to the device directly (Device.process is public and synchronous) instead of through the telegram queue
            tg["direct"] = rng.random() < 0.5
        if kind == "bs_reset" and v == 1 and rng.random() < 0.3:
            # an 'on' arriving as GroupValueResponse (answer to someone's read) is an 'on' telegram like any other: it
            # restarts a running timer, and after an automatic reset it switches the sensor on again
            tg["apci"] = "response"
        tgs.append(tg)
    readd = []
    if kind == "bs_counter" and len(tgs) >= 3 and rng.random() < 0.3:
        # the device is removed from the registry and added again (its tasks are cancelled) while a context is open
        k = rng.randrange(len(tgs) - 1)
        readd.append(round(tgs[k]["t"] + ctx * rng.choice([0.3, 0.7]), 6))
    junk = []
    if rng.random() < 0.3:
        # telegrams for the device's address whose payload its type can not decode (logged and dropped): neither 'on' nor
        # 'off' - they restart no timer and count for nothing
        for tg in rng.sample(tgs, min(len(tgs), rng.choice([1, 2, 3]))):
            junk.append({"t": round(tg["t"] + ref * rng.choice([0.3, 0.6, 0.9]), 6),
                         "p": rng.choice(["bin2", "bin63", "arr1", "arr2"]), "apci": rng.choice(["write", "write", "response"])})
    return {"seed": seed, "tier": "S", "junk": junk,
            "config": {"kind": kind, "reset": reset, "ctx": ctx, "shadow": rng.random() < 0.2, "epoch_base": rng.choice([0.0, 1.7e9]), "batch": 1,
                       "invert": False},
            "ops": tgs, "readd": readd}


def run(plan: dict[str, Any]) -> dict[str, Any]:
    from xknx.devices import BinarySensor, Switch
    from xknx.telegram import GroupAddress

    cfg = plan["config"]
    kind = cfg["kind"]
    R = Run(plan, max_time=100000.0)
    loop = R.loop
    xknx, stub, q = make_xknx(R)
    cb_log: list[tuple[float, Any, Any]] = []     # (t, state, counter)
    off_puts: list[float] = []
    state_samples: list[tuple[float, Any]] = []
    processed: list[tuple[float, int]] = []

    def updated(dev):
        cb_log.append((loop.time(), dev.state, getattr(dev, "counter", None)))
        R.record("device_updated", kind, f"{dev.state}/{getattr(dev, 'counter', None)}")

    orig_put = q.put_nowait

    def put(item):
        if item is not None and item.direction.name == "OUTGOING" and type(item.payload).__name__ == "GroupValueWrite":
            if item.destination_address.raw == GA_S and item.payload.value.value == 0:
                off_puts.append(loop.time())
        return orig_put(item)

    q.put_nowait = put

    async def main():
        if kind == "switch_reset":
            dev = Switch(xknx, "sw", group_address=GroupAddress(GA_S), reset_after=cfg["reset"], device_updated_cb=updated)
        else:
            dev = BinarySensor(xknx, "bs", group_address_state=GroupAddress(GA_S),
                               reset_after=cfg["reset"] if kind in ("bs_reset", "bs_both") else None,
                               context_timeout=cfg["ctx"] if kind in ("bs_counter", "bs_both") else None,
                               sync_state=False, device_updated_cb=updated)
        xknx.devices.async_add(dev)
        dev2 = None
        if cfg.get("shadow"):
            # a second device of the same kind and the same name (names need not be unique) on another address, switched on
            # while the judged one's timers run
            if kind == "switch_reset":
                dev2 = Switch(xknx, "sw", group_address=GroupAddress(GA_S + 1), reset_after=cfg["reset"])
            else:
                dev2 = BinarySensor(xknx, "bs", group_address_state=GroupAddress(GA_S + 1),
                                    reset_after=cfg["reset"] if kind in ("bs_reset", "bs_both") else None,
                                    context_timeout=cfg["ctx"] if kind in ("bs_counter", "bs_both") else None, sync_state=False)
            xknx.devices.async_add(dev2)
            R.extra_faults["second_device_of_the_same_name"] += 1
        await xknx.start()
        t0 = loop.time()

        def send(v, apci="write", direct=False):
            processed.append((loop.time(), v))
            if direct:
                from xknx.dpt import DPTBinary
                from xknx.telegram import GroupAddress, Telegram
                from xknx.telegram.apci import GroupValueResponse, GroupValueWrite
                dev.process(Telegram(destination_address=GroupAddress(GA_S),
                                     payload=(GroupValueResponse if apci == "response" else GroupValueWrite)(DPTBinary(v))))
                return
            pdu = W.gv_response_small(v) if apci == "response" else W.gv_write_small(v)
            stub.deliver(W.cemi_ldata(W.L_DATA_IND, 0x1101, GA_S, tpci_apci=pdu), "tg")

        ref_ = cfg["ctx"] if kind == "bs_counter" else cfg["reset"]
        when_prev = None
        for tg in plan["ops"]:
            when = t0 + tg["t"]
            if tg.get("g") == "eq" and when_prev is not None:
                when = when_prev + ref_      # the very float the library computes for its timer (time of the telegram + wait)
            if when_prev is not None and when < when_prev:
                when = when_prev
            when_prev = when
            if tg.get("iters"):
                loop.at(when, (lambda v=tg["v"], a=tg.get("apci", "write"), k=tg["iters"], d=bool(tg.get("direct")):
                               loop.soon_iters(k, lambda: send(v, a, d), label="tg")), label="tg")
            else:
                loop.at(when, (lambda v=tg["v"], a=tg.get("apci", "write"): send(v, a)), label="tg")
        def send_junk(j):
            data = {"bin2": None, "bin63": None, "arr1": b"\x01", "arr2": b"\x00\x01"}[j["p"]]
            if data is None:
                v = 2 if j["p"] == "bin2" else 63
                pdu = W.gv_response_small(v) if j["apci"] == "response" else W.gv_write_small(v)
            else:
                pdu = W.gv_response(data) if j["apci"] == "response" else W.gv_write(data)
            R.extra_faults["undecodable_telegram_for_the_device"] += 1
            stub.deliver(W.cemi_ldata(W.L_DATA_IND, 0x1101, GA_S, tpci_apci=pdu), "junk")

        for j in plan.get("junk") or []:
            loop.at(t0 + j["t"], (lambda j=j: send_junk(j)), label="junk")

        if dev2 is not None:
            for tg in plan["ops"]:
                loop.at(t0 + tg["t"] + ref_ * 0.3, (lambda: stub.deliver(W.cemi_ldata(
                    W.L_DATA_IND, 0x1101, GA_S + 1, tpci_apci=W.gv_write_small(1)), "tg2")), label="tg2")

        def readd():
            xknx.devices.async_remove(dev)
            xknx.devices.async_add(dev)
            R.extra_faults["device_removed_and_added_again"] += 1

        for tr in plan.get("readd") or []:
            loop.at(t0 + tr, readd, label="readd")
        tl = plan["ops"][-1]["t"]
        # sample the state around the expected reset instants
        ons = [tg["t"] for tg in plan["ops"] if tg["v"] == 1]
        sample_at = sorted({round(t + cfg["reset"] + d, 6) for t in ons for d in (-0.01, 0.05)})
        for s in sample_at:
            loop.at(t0 + s, (lambda: state_samples.append((loop.time() - t0, dev.state))), label="sample")
        await asyncio.sleep(tl + max(cfg["reset"], cfg["ctx"]) * 3 + 2.0)
        state_samples.append((loop.time() - t0, dev.state))
        info["t0"] = t0
        await xknx.stop()

    info: dict[str, Any] = {}
    R.execute(main())
    t0 = info.get("t0", 1000.0)
    tgs = plan["ops"]
    abstract = [kind, [(tg["g"], tg["v"], tg.get("apci", "w")[0]) for tg in tgs]]
    nontrivial = False
    eps = 1e-6
    if kind in ("bs_reset", "bs_both", "switch_reset"):
        r = cfg["reset"]
        # reference: the state is on from an 'on' telegram until min(next 'off' telegram, last 'on' + r)
        # expected reset instants: for each maximal chain of 'on' telegrams with gaps < r (no exact ties judged)
        ons = [tg for tg in tgs if tg["v"] == 1]
        for i, tg in enumerate(tgs):
            if tg["v"] != 1:
                continue
            later_on = [x for x in tgs if x["v"] == 1 and tg["t"] < x["t"] <= tg["t"] + r + 1e-5]
            same_instant_later = [x for x in tgs[i + 1:] if x["v"] == 1 and x["t"] == tg["t"]]
            if later_on or same_instant_later:
                nontrivial = True
                continue   # timer restarted by a later 'on' (ties within 1e-5 unjudged)
            t_reset = tg["t"] + r
            off_between = [x for j, x in enumerate(tgs) if x["v"] == 0 and tg["t"] <= x["t"] <= t_reset + 1e-5 and j > i]
            if kind == "switch_reset":
                # the switch enqueues its 'off' at exactly that instant - unless an 'off' telegram (or its own 'off' of an
                # earlier timer, processed only now) has switched it off meanwhile
                own_late = any(tg["t"] - 0.02 <= p - t0 < t_reset - eps for p in off_puts)
                if off_between or own_late:
                    R.probes["switch_off_before_its_reset_time"] += 1
                elif not any(abs((p - t0) - t_reset) < eps for p in off_puts):
                    R.violate("C42.switch-reset", "off-not-sent-at-reset-time",
                              f"last 'on' at {tg['t']}, reset_after {r}: no 'off' queued at {t_reset}; queued at {[round(p - t0, 6) for p in off_puts]}")
            else:
                before = [s for (ts, s) in state_samples if abs(ts - (t_reset - 0.01)) < 1e-6]
                after = [s for (ts, s) in state_samples if abs(ts - (t_reset + 0.05)) < 1e-6]
                if not off_between and before and before[0] is not True:
                    # still on just before the reset instant (unless a later telegram changed it)
                    if not any(tg["t"] < x["t"] < t_reset for x in tgs):
                        R.violate("C42.bs-reset", "off-before-reset-time", f"on at {tg['t']}, reset_after {r}: state {before[0]} at {t_reset - 0.01}")
                later = [x for x in tgs if t_reset < x["t"] <= t_reset + 0.05]
                if after and after[0] is not False and not later:
                    R.violate("C42.bs-reset", "not-off-after-reset-time", f"on at {tg['t']}, reset_after {r}: state {after[0]} at {t_reset + 0.05}")
                # exact instant: a state change callback to False at t_reset (only if the state was still on)
                if not off_between and kind == "bs_reset":
                    if not any(abs((tc - t0) - t_reset) < eps and st is False for (tc, st, c) in cb_log):
                        R.violate("C42.bs-reset", "no-off-callback-at-reset-time",
                                  f"on at {tg['t']}, reset_after {r}: callbacks {[(round(tc - t0, 6), st) for (tc, st, c) in cb_log][-6:]}")
        # never an 'off' earlier than reset after the last on: the switch must not send 'off' while a restarted timer runs
        if kind == "switch_reset":
            for p in off_puts:
                tp = p - t0
                live = [tg for tg in tgs if tg["v"] == 1 and tg["t"] <= tp]
                if live:
                    last_on = max(x["t"] for x in live)
                    if tp < last_on + r - 1e-5 and not any(abs(tp - (x["t"] + r)) < 1e-5 for x in live):
                        R.violate("C42.switch-reset", "off-sent-early", f"'off' queued at {tp}, last 'on' at {last_on}, reset_after {r}")
    if kind in ("switch_reset", "bs_both"):
        # once an 'off' telegram has arrived there is nothing left to reset: the timer of the 'on' before it must not act any
        # more - no redundant 'off' telegram of the switch, no 'off' event counted by the sensor that no telegram stands for.
        # Reference: 'on' arms the timer (again), 'off' disarms it, the timer fires only while the device is on.
        r = cfg["reset"]
        state_on, deadline, tie = False, None, False
        resets: list[float] = []          # instants at which a reset found the device on
        disarmed: list[tuple[float, float, float]] = []   # (t_on, t_off, deadline the 'off' telegram disarmed)
        armed_by = None
        for tg in tgs:
            if tg.get("iters"):
                tie = True
            while deadline is not None and deadline < tg["t"] - 1e-5:
                resets.append(deadline)
                state_on, deadline = False, None
            if deadline is not None and abs(deadline - tg["t"]) <= 1e-5:
                tie = True
                break
            if tg["v"] == 1:
                state_on, deadline, armed_by = True, tg["t"] + r, tg["t"]
            else:
                if deadline is not None:
                    disarmed.append((armed_by, tg["t"], deadline))
                state_on, deadline = False, None
        if deadline is not None:
            resets.append(deadline)
        if not tie:
            if kind == "switch_reset":
                for (t_on, t_off, dl) in disarmed:
                    if abs(t_off - t_on) <= 0.02 or any(abs(x["t"] + r - dl) <= 1e-5 for x in tgs if x["v"] == 1 and x["t"] != t_on):
                        continue        # the 'off' may have been processed before the 'on' it follows so closely
                    if any(abs((p_ - t0) - dl) < eps for p_ in off_puts):
                        R.violate("C42.switch-reset", "off-sent-although-already-off",
                                  f"'on' at {t_on}, 'off' telegram at {t_off}, reset_after {r}: the switch still sent an 'off' at {dl}")
            else:
                for (tc, st, c_) in cb_log:
                    if st is not False or not c_:
                        continue
                    offs = sum(1 for x in tgs if x["v"] == 0 and x["t"] <= tc - t0 + 1e-5)
                    n_res = sum(1 for d in resets if d <= tc - t0 + 1e-5)
                    if c_ > offs + n_res:
                        R.violate("C42.counter", "off-counter-exceeds-off-events",
                                  f"reset_after {r}: a callback at {tc - t0:.3f} reports 'off' counter {c_}; {offs} 'off' telegrams "
                                  f"and {n_res} resets of a sensor that was on had happened (telegrams {[(x['t'], x['v']) for x in tgs][:8]})")
                        break
    if kind == "bs_counter":
        c = cfg["ctx"]
        # bursts: maximal runs with gaps < c (strict); judged only if pure and not adjacent to a tie
        bursts: list[list[dict[str, Any]]] = []
        for tg in tgs:
            if bursts and tg["t"] - bursts[-1][-1]["t"] < c - 1e-5:
                bursts[-1].append(tg)
            else:
                bursts.append([tg])
        for bi, b in enumerate(bursts):
            if len(b) >= 2:
                nontrivial = True
            pure = len({x["v"] for x in b}) == 1
            cut = any(b[0]["t"] - 1e-5 <= tr <= b[-1]["t"] + c + 1e-5 for tr in plan.get("readd") or [])
            tie_next = bi + 1 < len(bursts) and abs(bursts[bi + 1][0]["t"] - b[-1]["t"] - c) <= 1e-5
            tie_prev = bi > 0 and abs(b[0]["t"] - bursts[bi - 1][-1]["t"] - c) <= 1e-5
            tie_in = any(abs(y["t"] - x["t"] - c) <= 1e-5 for x, y in zip(b, b[1:]))
            zero_gap_mixed = (not pure) and any(y["t"] == x["t"] for x, y in zip(b, b[1:]))
            if cut or tie_next or tie_prev or tie_in or zero_gap_mixed:
                R.probes["burst_unjudged"] += 1
                continue
            t_report = b[-1]["t"] + c
            # a context counts per state; what is reported when it ends is the last state and how often *that* state was set
            want_state = bool(b[-1]["v"])
            want_count = sum(1 for x in b if x["v"] == b[-1]["v"])
            if not pure:
                R.probes["mixed_burst_judged"] += 1
            reports = [(st, cnt) for (tc, st, cnt) in cb_log if abs((tc - t0) - t_report) < eps]
            if not reports:
                R.violate("C42.counter", "burst-not-reported", f"burst of {len(b)} x {want_state} ending {b[-1]['t']}: no callback at {t_report}")
                continue
            st, cnt = reports[0]
            if st != want_state or cnt != want_count:
                R.violate("C42.counter", f"count={cnt}-for-burst-of-{min(want_count, 9)}",
                          f"burst of {len(b)} x {want_state} ending {b[-1]['t']}: first callback at {t_report} reports state {st}, counter {cnt}")
            else:
                R.probes["burst_counted"] += 1
    R.check_escapes("C42.no-escape")
    return R.result(nontrivial=nontrivial, abstract=abstract)
