"""C24 — outgoing tunnel frames are sequenced and confirmed only by their own ACK.

World W-TUN: a real UDPTunnel / TCPTunnel (with a real XKNX object for the
connection manager) against SimGateway.  Oracle reads the client-side wire log.
"""

from __future__ import annotations

import asyncio
import random
from typing import Any

from sim import shadow as SH
from sim import wire as W
from sim.gateway import SimGateway
from sim.world import Run

ID = "C24"
LEVEL = "exploration"
RUNS = {"quick": 24000, "thorough": 2400000}
BUDGET = {"quick": 100.0, "thorough": 3300.0}
RULE = ("one run = one seeded tunnel session (1-4 concurrent send_cemi callers, scripted gateway ACK "
        "behaviours, network drop/dup/delay, server disconnects, gateway crash); non-trivial = at least one "
        "fault or scripted misbehaviour fired; distinct = distinct abstract trace (sequence of wire event kinds, "
        "ack relations and op outcomes, payload values and times abstracted)")
REAL = ["xknx.io.tunnel.UDPTunnel", "xknx.io.tunnel.TCPTunnel", "xknx.io.request_response.*",
        "xknx.io.transport.UDPTransport", "xknx.io.transport.TCPTransport", "xknx.io.data_connection.*",
        "xknx.core.ConnectionManager", "xknx.knxip.* codecs", "xknx.cemi.CEMIFrame"]
STUB = ["KNXnet/IP gateway (sim.gateway.SimGateway, independent codec)", "IP network (sim.net.SimNet)",
        "event loop clock/selector (sim.loop.SimLoop)"]
ASSUMPTIONS = ["CPython 3.12 BaseEventLoop scheduling semantics", "gateway allocates a fresh channel id per connection",
               "tier S scheduling (one datagram per socket per loop iteration) unless config.batch>1"]

ACK_KINDS = ["none", "late", "dup", "stale", "stale+ack", "foreign", "foreign+ack", "error", "future"]
GA = W.ga(1, 2, 3)


def gen(seed: int, tier: str) -> dict[str, Any]:
    rng = random.Random(seed)
    transport = "udp" if rng.random() < 0.8 else "tcp"
    n_sends = rng.choice([1, 2, 3, 4, 6, 8, 12])
    if rng.random() < 0.03:
        n_sends = 270  # wrap-around
    ops: list[dict[str, Any]] = []
    t = 0.1
    burst = rng.random() < 0.5
    for i in range(n_sends):
        if n_sends > 100:
            t += 0.01
        elif burst:
            t += rng.choice([0.0, 0.0, 0.001, 0.3, 1.0, 2.5])
        else:
            t += rng.choice([0.0, 0.05, 0.5, 1.0, 1.001, 2.0, 3.5, 5.0])
        ops.append({"t": round(t, 6), "op": "send", "id": i + 1})
    faulty = rng.random() < 0.85
    acks: list[Any] = []
    policy = None
    if faulty:
        mis_rate = rng.choice([0.0, 0.1, 0.25, 0.5])
        kinds = rng.sample(ACK_KINDS, rng.randint(1, 4))
        for _ in range(n_sends * 3 if n_sends < 100 else 40):
            if rng.random() < mis_rate:
                k = rng.choice(kinds)
                b: dict[str, Any] = {"k": k}
                if k in ("late",):
                    b["d"] = rng.choice([0.5, 0.999, 1.0, 1.0005, 1.2, 1.9, 2.5])
                if k in ("dup", "stale+ack", "foreign+ack"):
                    b["d"] = rng.choice([0.0, 0.0005, 0.2, 0.6, 0.999, 1.0005, 1.5])
                if k == "error":
                    # any KNXnet/IP error code, e.g. E_SEQUENCE_NUMBER for a repetition whose first ACK was lost
                    b["status"] = rng.choice([0x29, 0x04, 0x04, 0x21, 0x24, 0x01, 0xFF])
                acks.append(b)
                if k in ("none", "late", "stale", "foreign", "future") and rng.random() < 0.35:
                    # the repetition of an unacknowledged request is answered with an error status
                    acks.append({"k": "error", "status": rng.choice([0x04, 0x04, 0x29, 0x21])})
            else:
                acks.append(None)
        if rng.random() < 0.5:
            policy = {"drop": rng.choice([0.0, 0.05, 0.15]), "dup": rng.choice([0.0, 0.05, 0.2]),
                      "delay": rng.choice([0.0, 0.05, 0.2])}
        tmax = t + 1.0
        if rng.random() < 0.3:
            ops.append({"t": round(rng.uniform(0.05, tmax), 6), "op": "srv_disconnect"})
        if rng.random() < 0.12:
            t0 = round(rng.uniform(0.05, tmax), 6)
            ops.append({"t": t0, "op": "gw_crash"})
            ops.append({"t": round(t0 + rng.choice([0.5, 2.5, 8.0]), 6), "op": "gw_restart"})
        if rng.random() < 0.2:
            for _ in range(rng.randint(1, 3)):
                ops.append({"t": round(rng.uniform(0.05, tmax), 6), "op": "srv_frame"})
    ops.sort(key=lambda o: o["t"])
    cfg = {
        "transport": transport,
        "auto_reconnect": rng.random() < 0.8,
        "auto_reconnect_wait": rng.choice([1, 3]),
        "route_back": transport == "udp" and rng.random() < 0.3,
        "local_port": rng.choice([0, 0, 51000]),
        "batch": 1 if rng.random() < 0.8 else 3,
        "first_channel": rng.choice([1, 7, 254]),
    }
    # a second tunnel (own XKNX object, own gateway) lives in the same process and is busy meanwhile
    cfg["shadow"] = rng.random() < 0.15
    return {"seed": seed, "tier": "S" if cfg["batch"] == 1 else "P", "config": cfg, "ops": ops,
            "gw": {"ack": acks, "first_channel": rng.choice([1, 1, 0, 254, 255])}, "fault_policy": policy}


def run(plan: dict[str, Any]) -> dict[str, Any]:
    from xknx import XKNX
    from xknx.cemi import CEMIFrame
    from xknx.exceptions import CommunicationError
    from xknx.io.tunnel import TCPTunnel, UDPTunnel

    cfg = plan["config"]
    R = Run(plan, max_time=3000.0)
    loop = R.loop
    net = R.net
    script = dict(plan.get("gw") or {})
    script["first_channel"] = cfg.get("first_channel", 1)
    gw = SimGateway(net, script=script)
    received: list[bytes] = []
    sends: dict[int, dict[str, Any]] = {}
    udp = cfg["transport"] == "udp"

    async def main():
        xknx = XKNX()
        if udp:
            tunnel = UDPTunnel(xknx, cemi_received_callback=received.append, gateway_ip=gw.ip,
                               gateway_port=gw.port, local_ip=net.local_ip, local_port=cfg["local_port"],
                               route_back=cfg["route_back"], auto_reconnect=cfg["auto_reconnect"],
                               auto_reconnect_wait=cfg["auto_reconnect_wait"])
        else:
            tunnel = TCPTunnel(xknx, cemi_received_callback=received.append, gateway_ip=gw.ip,
                               gateway_port=gw.port, auto_reconnect=cfg["auto_reconnect"],
                               auto_reconnect_wait=cfg["auto_reconnect_wait"])
        try:
            await tunnel.connect()
        except CommunicationError:
            R.probes["initial_connect_failed"] += 1
            return
        t0 = loop.time()
        tasks: list[asyncio.Task] = []

        async def do_send(pid: int):
            raw = W.cemi_ldata(W.L_DATA_REQ, 0, GA, tpci_apci=W.gv_write(pid.to_bytes(2, "big")))
            cemi = CEMIFrame.from_knx(raw)
            rec = sends[pid] = {"call": R.record("op_call", "user", f"send:{pid}"), "ret": None, "out": None}
            try:
                await tunnel.send_cemi(cemi)
            except CommunicationError as exc:
                rec["out"] = "comm_error"
                rec["exc"] = type(exc).__name__
            except asyncio.CancelledError:
                rec["out"] = "cancelled"
                raise
            except Exception as exc:  # pylint: disable=broad-except
                rec["out"] = "other:" + type(exc).__name__
            else:
                rec["out"] = "ok"
            finally:
                rec["ret"] = R.record("op_return", "user", f"send:{pid}:{rec['out']}")

        def start_op(op):
            k = op["op"]
            if k == "send":
                tasks.append(loop.create_task(do_send(op["id"])))
            elif k == "srv_disconnect":
                if gw.server_disconnect() is not None:
                    R.extra_faults["srv_disconnect"] += 1
            elif k == "gw_crash":
                gw.crash()
                R.extra_faults["gw_crash"] += 1
            elif k == "gw_restart":
                gw.restart()
            elif k == "srv_frame":
                if gw.last_cid in gw.channels:
                    cid = gw.last_cid
                    gw.send_request(cid, W.cemi_ldata(W.L_DATA_IND, 0x1101, GA, tpci_apci=W.gv_write_small(1)))

        tlast = 0.0
        for op in plan["ops"]:
            loop.at(t0 + op["t"], (lambda o=op: start_op(o)), label="op")
            tlast = max(tlast, op["t"])
        sh = None
        if cfg.get("shadow"):
            sh = SH.start(R, SH.udp_tunnel_life(R, horizon=tlast + 0.4, seed=plan["seed"],
                                                first_channel=(plan.get("gw") or {}).get("first_channel", 1),
                                                period=max(0.02, (tlast + 0.5) / 12), start_after=min(0.2, tlast / 3)))
        await asyncio.sleep(tlast + 0.5)
        await SH.finish(sh)
        # faults stop; give every send time to resolve (2 tries + reconnect + third try)
        gw.restart()
        R.faults.active = False
        deadline = loop.time() + 40.0
        while any(not t.done() for t in tasks) and loop.time() < deadline:
            await asyncio.sleep(0.5)
        for t in tasks:
            if not t.done():
                R.probes["send_cancelled_by_harness"] += 1
                t.cancel()
        await asyncio.gather(*tasks, return_exceptions=True)
        try:
            await tunnel.disconnect()
        except CommunicationError:
            pass
        await asyncio.sleep(0.1)

    R.execute(main())
    abstract = oracle(R, sends, udp)
    R.check_escapes("C24.no-escape")  # not a clause of C24: recorded as probe only
    esc = [v for v in R.violations if v["clause"] == "C24.no-escape"]
    if esc:
        R.probes["escape_seen"] += len(esc)
        R.violations = [v for v in R.violations if v["clause"] != "C24.no-escape"]
    fired = sum(R.faults.fired.values()) + sum(gw.fired.values()) + sum(R.extra_faults.values())
    R.extra_faults.update(gw.fired)
    return R.result(nontrivial=fired > 0, abstract=abstract)


def oracle(R: Run, sends: dict[int, dict[str, Any]], udp: bool):
    """Check the clauses over the client-side wire log. Returns the abstract trace."""
    client_ip = R.net.local_ip
    reqs: list[dict[str, Any]] = []   # client TunnellingRequests in send order
    acks: list[dict[str, Any]] = []   # TunnellingAcks delivered to the client
    abstract: list[Any] = []
    conn_no = 0   # ConnectRequests sent by the client so far: a connection epoch is (this number, channel id) - the
    #               channel id alone is not enough, a delayed duplicate of an old ConnectResponse can answer a new
    #               ConnectRequest, and the client then legitimately starts again at counter 0 under the old id
    for (n, t, it, kind, actor, detail) in R.events:
        if kind in ("udp_out", "tcp_out"):
            if kind == "udp_out" and not str(actor).startswith(client_ip + ":"):
                continue
            data = bytes.fromhex(detail)
            off = 0
            while off + 6 <= len(data):
                h = W.parse_header(data[off:])
                if h is None or h[1] < 6:
                    break
                fr = data[off:off + h[1]]
                off += h[1]
                svc, body = h[0], fr[6:]
                if svc == W.TUNNEL_REQ and len(body) >= 4:
                    c = W.parse_cemi_ldata(body[4:])
                    pid = int.from_bytes(c["tpdu"][2:4], "big") if c and len(c["tpdu"]) >= 4 else -1
                    reqs.append({"n": n, "t": t, "ch": body[1], "seq": body[2], "pid": pid, "ep": (conn_no, body[1])})
                    abstract.append(("req", "new" if not any(r["pid"] == pid for r in reqs[:-1]) else "rep"))
                elif svc == W.CONNECT_REQ:
                    conn_no += 1
                    abstract.append(("connect_req",))
                elif svc == W.DISCONNECT_REQ:
                    abstract.append(("disconnect_req",))
        elif kind in ("udp_in",):
            if f">{client_ip}:" not in str(actor):
                continue
            data = bytes.fromhex(detail)
            sp = W.split(data)
            if sp and sp[0] == W.TUNNEL_ACK and len(sp[1]) >= 4:
                b = sp[1]
                acks.append({"n": n, "t": t, "ch": b[1], "seq": b[2], "status": b[3]})
                last = reqs[-1] if reqs else None
                rel = "noreq" if last is None else (
                    "own" if (b[1], b[2]) == (last["ch"], last["seq"]) and b[3] == 0 else
                    "err" if (b[1], b[2]) == (last["ch"], last["seq"]) else
                    "foreign-ch" if b[1] != last["ch"] else "other-seq")
                abstract.append(("ack", rel))
            elif sp and sp[0] == W.DISCONNECT_REQ:
                abstract.append(("srv_disconnect",))
        elif kind == "op_return":
            abstract.append(("ret", str(detail).rsplit(":", 1)[-1]))

    # --- clause: sequencing per epoch (epoch = connection attempt number + channel id carried by the request)
    first_tx: dict[Any, dict[str, Any]] = {}
    order: dict[Any, list[int]] = {}
    epochs: list[int] = []
    for r in reqs:
        if r["ep"] not in order:
            order[r["ep"]] = []
            epochs.append(r["ch"])
        key = (r["ep"], r["pid"])
        if key not in first_tx:
            first_tx[key] = r
            idx = len(order[r["ep"]])
            order[r["ep"]].append(r["pid"])
            want = idx & 0xFF
            if r["seq"] != want:
                R.violate("C24.sequence", "first-tx-counter!=next" if idx else "first-frame-on-new-channel!=0",
                          f"payload {r['pid']} is distinct frame #{idx} on channel {r['ch']} but carries counter {r['seq']}")
            if idx == 255:
                R.probes["wraparound_reached"] += 1
        else:
            if r["seq"] != first_tx[key]["seq"]:
                R.violate("C24.sequence", "repetition-changes-counter",
                          f"payload {r['pid']} repeated on channel {r['ch']} with counter {r['seq']} != {first_tx[key]['seq']}")
    # --- clause: at most one repetition per epoch over UDP
    if udp:
        cnt: dict[Any, int] = {}
        for r in reqs:
            k = (r["ep"], r["pid"])
            cnt[k] = cnt.get(k, 0) + 1
            if cnt[k] == 3:
                R.violate("C24.udp-repeat", "payload-sent-3x-in-epoch",
                          f"payload {r['pid']} transmitted a third time on channel {r['ch']}")
        if any(v == 2 for v in cnt.values()):
            R.probes["repetition_seen"] += 1
        if len({r["ep"] for r in reqs}) > 1:
            R.probes["multi_epoch"] += 1
    # --- clause: only one request awaits acknowledgement at a time (UDP)
    if udp:
        for i in range(1, len(reqs)):
            p, q = reqs[i - 1], reqs[i]
            if q["pid"] == p["pid"] and q["ep"] == p["ep"]:
                continue
            if q["t"] - p["t"] >= 1.0 - 1e-9:
                continue
            if q["ep"] != p["ep"]:
                continue  # connection re-established in between
            resolved = any(p["n"] < a["n"] < q["n"] for a in acks)
            if not resolved:
                R.violate("C24.one-at-a-time", "new-request-while-previous-unresolved",
                          f"payload {q['pid']} sent {q['t'] - p['t']:.6f}s after payload {p['pid']} with no ACK delivered in between")
    # --- clause: success needs its own ACK (UDP)
    if udp:
        for pid, rec in sends.items():
            if rec["out"] != "ok":
                if rec["out"] and rec["out"].startswith("other:"):
                    R.probes["send_failed_with_" + rec["out"][6:]] += 1
                continue
            mine = [r for r in reqs if r["pid"] == pid and rec["call"] < r["n"] < rec["ret"]]
            if not mine:
                R.violate("C24.success-needs-own-ack", "success-without-transmission",
                          f"send of payload {pid} returned OK but no TunnellingRequest left the client")
                continue
            last = mine[-1]
            good = [a for a in acks if last["n"] < a["n"] < rec["ret"]
                    and a["ch"] == last["ch"] and a["seq"] == last["seq"] and a["status"] == 0]
            if good:
                R.probes["acked_ok"] += 1
                continue
            between = [a for a in acks if last["n"] < a["n"] < rec["ret"]]
            if not between:
                # maybe acked on the first transmission while a repetition was already out? not possible: repetition follows timeout
                sig = "no-ack-delivered"
            else:
                a = between[-1]
                if a["ch"] != last["ch"]:
                    sig = "ack.channel!=req.channel"
                elif a["seq"] != last["seq"]:
                    sig = "ack.seq!=req.seq"
                else:
                    sig = "ack.status!=0"
            R.violate("C24.success-needs-own-ack", sig,
                      f"send of payload {pid} (channel {last['ch']}, counter {last['seq']}) returned OK; "
                      f"ACKs delivered after its last transmission: {[(a['ch'], a['seq'], a['status']) for a in between]}")
    return abstract
