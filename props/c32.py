"""C32 — device management requests get only their own answer.

W-DM: a real UDP / TCP / Secure DeviceManagementConnection against SimGateway's
device-management server: 1-3 concurrent read_property / write_property
callers; the server answers late, twice, for another property / type / instance,
interleaves M_PropInfo.ind, drops or duplicates acknowledgements, and closes the
connection (server DisconnectRequest, TCP close, user disconnect()) at seeded
steps.  Every answer carries a unique value.
"""

from __future__ import annotations

import asyncio
import random
import struct
from typing import Any

from sim import crypto as C
from sim import wire as W
from sim.gateway import SimGateway
from sim.secure_gateway import SecureGateway
from sim.world import Run

ID = "C32"
LEVEL = "exploration"
RUNS = {"quick": 12000, "thorough": 1800000}
BUDGET = {"quick": 100.0, "thorough": 3300.0}
RULE = ("one run = one device management connection (UDP / TCP / secure) with 1-8 property requests from 1-3 concurrent "
        "callers and seeded server behaviour per request (answer kinds, acknowledgement kinds, indications, closes); "
        "non-trivial = at least one non-standard server behaviour; distinct = distinct (transport, behaviour sequence, outcomes)")
REAL = ["xknx.io.device_management_connection.UDP/TCP/SecureDeviceManagementConnection", "xknx.io.device_management.DeviceManagement",
        "xknx.io.request_response.DeviceConfiguration / Connect / ConnectionState / Disconnect", "xknx.io.data_connection.*",
        "xknx.cemi M_Prop* codecs", "xknx.io.ip_secure.SecureSession (secure mode)"]
STUB = ["device-management server (SimGateway / SecureGateway)", "network (SimNet)", "loop (SimLoop)"]
ASSUMPTIONS = ["a stale answer for the *same* property is indistinguishable by design and not flagged",
               "closing fails a request waiting for its answer at the same instant; one waiting for its acknowledgement within the "
               "running 10 s acknowledgement timeout"]

OBJ = {11: "OBJECT_KNXNETIP_PARAMETER", 0: "OBJECT_DEVICE", 8: "OBJECT_CEMI_SERVER"}
ANSWERS = ["ok", "ok", "ok", "late", "twice", "other_property", "other_object", "other_instance", "other_type", "ind_then_ok",
           "none", "error", "wrong_then_ok", "wrong+ok_at_once", "wrong+close_at_once"]
ACKS = ["ok", "ok", "ok", "none", "dup", "late", "error"]


def preflight():
    return C.anchor_selftest()


def gen(seed: int, tier: str) -> dict[str, Any]:
    rng = random.Random(seed)
    transport = rng.choice(["udp", "udp", "tcp", "secure"])
    n = rng.choice([1, 2, 4, 8])
    clean = rng.random() < 0.15
    long_run = rng.random() < 0.03
    if long_run:
        # a long session on one connection: the one-octet counter of the requests wraps (more than once)
        n = rng.choice([260, 300, 520])
        clean = True
    reqs = []
    for i in range(n):
        reqs.append({"kind": rng.choice(["read", "read", "write"]), "obj": rng.choice([11, 0]), "inst": rng.choice([1, 1, 2]),
                     "pid": rng.choice([51, 52, 57, 58]), "caller": rng.randrange(rng.choice([1, 2, 3])),
                     "answer": "ok" if clean else rng.choice(ANSWERS), "ack": "ok" if clean or transport != "udp" else rng.choice(ACKS),
                     "ans_lat": 0.005 if long_run else rng.choice([0.005, 0.005, 0.5, 9.99, 10.01, 12.0])})
    ops = []
    if not clean and rng.random() < 0.4:
        t_close = rng.uniform(0.01, 15.0)
        if rng.random() < 0.35:
            # just before an acknowledgement / answer timeout of a request sent at ~0 expires
            t_close = 10.0 * rng.choice([1, 1, 2, 3]) - rng.uniform(-0.05, 1.1)
        ops.append({"t": round(t_close, 6), "op": rng.choice(["srv_disconnect", "user_disconnect", "tcp_close"
                                                                if transport != "udp" else "srv_disconnect"])})
    if rng.random() < 0.2:
        ops.append({"t": round(rng.uniform(0.0, 10.0), 6), "op": "indication"})
    # how the server treats the client's DisconnectRequest: answers, stays silent (the client waits 1 s), answers late
    disc = rng.choice(["ok", "ok", "drop", "late"])
    policy = None
    if transport == "udp" and not clean and rng.random() < 0.25:
        # datagrams get lost in both directions: a request the server never saw must be repeated (same counter) or the
        # connection given up - never followed by a new request under the next counter
        policy = {"drop": rng.choice([0.1, 0.25])}
    return {"seed": seed, "tier": "P", "fault_policy": policy,
            "config": {"transport": transport, "batch": 1 if rng.random() < 0.75 else 3, "route_back": rng.random() < 0.2,
                                                  "disc": disc, "ind_cb": rng.random() < 0.6,
                                                  "ind_same": rng.random() < 0.6},
            "reqs": reqs, "ops": ops}


SHRINK_LISTS = ("reqs", "ops")


def run(plan: dict[str, Any]) -> dict[str, Any]:
    from xknx.exceptions import CommunicationError
    from xknx.io.device_management_connection import (
        SecureDeviceManagementConnection, TCPDeviceManagementConnection, UDPDeviceManagementConnection)
    from xknx.profile.const import ResourceObjectType

    cfg = plan["config"]
    tr = cfg["transport"]
    R = Run(plan, max_time=5000.0)
    loop, net = R.loop, R.net
    rng = random.Random(plan["seed"] ^ 0xC32)
    gw = SecureGateway(net, rng) if tr == "secure" else SimGateway(net)
    indications: list[bytes] = []
    results: list[dict[str, Any]] = []
    answers_sent: list[dict[str, Any]] = []     # every M_Prop*.con the server sent: (n, t, key, value)
    info: dict[str, Any] = {"closed_at": None, "user_disc": None}
    val = [0]
    reqs = plan["reqs"]
    seen_reqs: list[dict[str, Any]] = []

    def prop(code: int, obj: int, inst: int, pid: int, noe: int = 1, data: bytes = b"") -> bytes:
        return bytes((code,)) + struct.pack(">HBB", obj, inst, pid) + struct.pack(">H", (noe << 12) | 1) + data

    def srv_send(ch, cemi: bytes, lat: float | None = None, key=None, value=None):
        def go():
            if ch.cid not in gw.channels:
                return
            n = R.record("srv_answer", "gw", cemi.hex())
            if key is not None:
                answers_sent.append({"n": n, "t": loop.time(), "key": key, "value": value})
            gw.send_request(ch.cid, cemi)
        if lat:
            loop.after(lat, go, label="answer")
        else:
            go()

    def bus(cemi: bytes, ch):
        """A DeviceConfigurationRequest of the client was accepted by the server."""
        if len(cemi) < 7 or cemi[0] not in (0xFC, 0xF6):
            return
        obj, inst, pid = struct.unpack(">HBB", cemi[1:5])
        is_read = cemi[0] == 0xFC
        k = len(seen_reqs)
        beh = None
        # find the plan entry for this request (by order of first transmissions of distinct requests)
        cand = [r for r in reqs if not r.get("_seen") and r["obj"] == obj and r["inst"] == inst and r["pid"] == pid
                and (r["kind"] == "read") == is_read]
        if cand:
            beh = cand[0]
            beh["_seen"] = True
        seen_reqs.append({"n": R.n, "key": (is_read, obj, inst, pid)})
        ans = beh["answer"] if beh else "ok"
        lat = beh["ans_lat"] if beh else 0.005
        if ans != "ok":
            R.extra_faults["answer_" + ans] += 1
        con = 0xFB if is_read else 0xF5

        def good():
            val[0] += 1
            v = val[0].to_bytes(2, "big")
            return (prop(con, obj, inst, pid, 1, v if is_read else b""), (is_read, obj, inst, pid), v if is_read else b"")

        def wrong(kind):
            val[0] += 1
            v = val[0].to_bytes(2, "big")
            o, i_, p, c = obj, inst, pid, con
            if kind == "other_property":
                p = pid + 1
            elif kind == "other_object":
                o = 8 if obj != 8 else 0
            elif kind == "other_instance":
                i_ = inst + 1
            elif kind == "other_type":
                c = 0xF5 if is_read else 0xFB
            is_r = c == 0xFB
            return (prop(c, o, i_, p, 1, v if is_r else b""), (is_r, o, i_, p), v if is_r else b"")

        if ans == "none":
            return
        if ans == "error":
            val[0] += 1
            fr = prop(con, obj, inst, pid, 0, bytes((0x07,)))
            srv_send(ch, fr, lat, key=(is_read, obj, inst, pid), value=b"ERR")
            return
        if ans in ("other_property", "other_object", "other_instance", "other_type"):
            fr, key, v = wrong(ans)
            srv_send(ch, fr, lat, key=key, value=v)
            return
        if ans == "wrong+ok_at_once":
            # a frame that is not the answer and the answer itself leave the server back to back (one TCP segment / two
            # datagrams delivered in the same instant): the first must be discarded, the second returned
            fr, key, v = wrong(rng.choice(["other_property", "other_instance", "other_type"]))
            srv_send(ch, fr, lat, key=key, value=v)
            fr, key, v = good()
            srv_send(ch, fr, lat, key=key, value=v)
            return
        if ans == "wrong+close_at_once":
            # a frame that is not the answer and the server's DisconnectRequest leave the server back to back: the request
            # has a (wrong) frame to look at and the connection is gone before it gets to do so - it must fail at once
            fr, key, v = wrong(rng.choice(["other_property", "other_instance", "other_type"]))
            srv_send(ch, fr, lat, key=key, value=v)

            def close_now(cid=ch.cid):
                if info["closed_at"] is None and gw.server_disconnect(cid) is not None:
                    info["closed_at"] = loop.time()
                    info["closed_by"] = "srv"
                    R.extra_faults["srv_disconnect_right_behind_a_wrong_answer"] += 1
            loop.after(lat, close_now, label="answer")
            return
        if ans == "wrong_then_ok":
            fr, key, v = wrong(rng.choice(["other_property", "other_instance", "other_type"]))
            srv_send(ch, fr, 0.003, key=key, value=v)
        if ans == "ind_then_ok":
            # a server-initiated indication while the request is outstanding - for another property or (ind_same) for the very
            # property being requested, which only its message code tells apart from the answer
            if cfg.get("ind_same"):
                srv_send(ch, prop(0xF7, obj, inst, pid, 1, b"\xaa"), 0.002)
            else:
                srv_send(ch, bytes((0xF7, 0x00, 0x0B, 0x01, 0x45, 0x10, 0x01, 0xAA)), 0.002)
        fr, key, v = good()
        srv_send(ch, fr, lat if ans != "late" else 10.5, key=key, value=v)
        if ans == "twice":
            fr2, key2, v2 = good()
            srv_send(ch, fr2, lat + 0.01, key=key2, value=v2)

    gw.bus = bus
    # acknowledgement behaviours are indexed by the ordinal of accepted configuration requests
    if tr == "udp":
        gw.script = {"cfgack": [{"k": {"ok": "ok", "none": "none", "dup": "dup", "late": "late", "error": "error"}[r["ack"]],
                                 "d": 10.5 if r["ack"] == "late" else 0.2} if r["ack"] != "ok" else None for r in reqs]}

    if cfg.get("disc", "ok") != "ok":
        gw.script = dict(getattr(gw, "script", None) or {})
        gw.script["disconnect"] = [{"k": "drop"} if cfg["disc"] == "drop" else {"lat": 0.6}]

    async def main():
        # the indication callback is optional (constructor default: None)
        ind_cb = (lambda c: indications.append(c.to_knx())) if cfg.get("ind_cb", True) else None
        if tr == "udp":
            conn = UDPDeviceManagementConnection(gw.ip, gw.port, net.local_ip, route_back=cfg["route_back"], indication_callback=ind_cb)
        elif tr == "tcp":
            conn = TCPDeviceManagementConnection(gw.ip, gw.port, indication_callback=ind_cb)
        else:
            conn = SecureDeviceManagementConnection(gw.ip, gw.port, user_id=2, user_password="user",
                                                    device_authentication_password="dev", indication_callback=ind_cb)
        try:
            await conn.connect()
        except CommunicationError:
            R.probes["connect_failed"] += 1
            return
        t0 = loop.time()

        async def caller(ci: int):
            for idx, r in enumerate(reqs):
                if r["caller"] != ci:
                    continue
                rec = {"i": idx, "req": r, "n_call": R.record("op_call", ci, idx), "t_call": loop.time()}
                try:
                    async with asyncio.timeout(200):
                        ot = ResourceObjectType(r["obj"])
                        if r["kind"] == "read":
                            rec["value"] = await conn.read_property(ot, r["pid"], object_instance=r["inst"])
                        else:
                            await conn.write_property(ot, r["pid"], bytes((idx & 0xFF,)), object_instance=r["inst"])
                            rec["value"] = b""
                    rec["out"] = "ok"
                except CommunicationError as exc:
                    rec["out"] = "comm_error"
                    rec["msg"] = str(exc)[:80]
                except TimeoutError:
                    rec["out"] = "HANG"
                except asyncio.CancelledError:
                    if info.get("final"):
                        raise               # the harness' own sweep at the end of the run
                    rec["out"] = "CancelledError"
                    results.append(rec)
                    raise
                except Exception as exc:  # pylint: disable=broad-except
                    rec["out"] = "other:" + type(exc).__name__
                rec["n_ret"] = R.record("op_return", ci, rec["out"])
                rec["t_ret"] = loop.time()
                results.append(rec)

        def do(op):
            k = op["op"]
            if k == "srv_disconnect":
                if gw.server_disconnect() is not None:
                    info["closed_at"] = loop.time()
                    info["closed_by"] = "srv"
                    R.extra_faults["srv_disconnect"] += 1
            elif k == "tcp_close":
                for c in net.tcp_conns:
                    if c.open:
                        c.server_close(None)
                        gw.on_close(c)
                        info["closed_at"] = loop.time()
                        info["closed_by"] = "tcp"
                        R.extra_faults["tcp_close"] += 1
            elif k == "user_disconnect":
                info["closed_at"] = loop.time()
                info["closed_by"] = "user"
                async def user_disc():
                    try:
                        await conn.disconnect()
                    finally:
                        info["user_disc_ret"] = loop.time()
                info["user_disc"] = loop.create_task(user_disc())
                R.extra_faults["user_disconnect"] += 1
            elif k == "indication":
                if gw.last_cid in gw.channels:
                    if cfg.get("ind_same") and reqs:
                        r0 = reqs[0]
                        gw.send_request(gw.last_cid, prop(0xF7, r0["obj"], r0["inst"], r0["pid"], 1, b"\xbb"))
                    else:
                        gw.send_request(gw.last_cid, bytes((0xF7, 0x00, 0x0B, 0x01, 0x45, 0x10, 0x01, 0xBB)))
                    R.extra_faults["indication"] += 1

        for op in plan["ops"]:
            loop.at(t0 + op["t"], (lambda o=op: do(o)), label="op")
        callers = sorted({r["caller"] for r in reqs})
        tasks = [loop.create_task(caller(c)) for c in callers]
        await asyncio.wait(tasks, timeout=600 + 4 * len(reqs))
        info["final"] = True
        for t in tasks:
            if not t.done():
                t.cancel()
        await asyncio.gather(*tasks, return_exceptions=True)
        try:
            await conn.disconnect()
        except CommunicationError:
            pass
        await asyncio.sleep(0.5)

    R.execute(main())
    for r in reqs:
        r.pop("_seen", None)
    # ------------------------------------------------------------------ oracle
    nontrivial = any(r["answer"] != "ok" or r["ack"] != "ok" for r in reqs) or bool(plan["ops"])
    for rec in results:
        r = rec["req"]
        key = (r["kind"] == "read", r["obj"], r["inst"], r["pid"])
        out = rec["out"]
        if out == "HANG":
            R.violate("C32.prompt-failure", "request-hangs", f"request {rec['i']} {key} did not return")
            continue
        if out == "CancelledError":
            R.violate("C32.prompt-failure", "leaked-CancelledError", f"request {rec['i']} raised CancelledError to its caller")
            continue
        if out.startswith("other:"):
            R.violate("C32.prompt-failure", out, f"request {rec['i']} failed with a non-communication error")
            continue
        same_key = sum(1 for q in reqs if (q["kind"] == "read", q["obj"], q["inst"], q["pid"]) == key)
        if out != "ok" and tr != "udp" and same_key == 1 and not any(o["op"] != "indication" for o in plan["ops"]):
            # nothing can have gone wrong on a stream transport that stays open: if the server sent an answer of the matching
            # type for the same object, instance and property while the request was outstanding (well before it gave up), the
            # request has to return it - whatever else the server sent around it
            t_of = {e[0]: e[1] for e in R.events if e[3] == "srv_answer"}
            # ... "outstanding" = after the server received this very request (an equal frame that arrived while the request
            # still waited for its turn is a stale answer and rightly discarded)
            n_recv = next((q["n"] for q in seen_reqs if q["key"] == key and q["n"] > rec["n_call"]), None)
            mine = [a for a in answers_sent if n_recv is not None and a["key"] == key and n_recv < a["n"] < rec["n_ret"]
                    and t_of.get(a["n"], rec["t_ret"]) < rec["t_ret"] - 0.5 and a["value"] != b"ERR"]
            if mine:
                R.violate("C32.own-answer-only", "matching-answer-not-returned",
                          f"request {rec['i']} {key} failed with {out} although the server sent a matching answer "
                          f"{rec['t_ret'] - t_of.get(mine[0]['n'], 0):.3f}s before")
                continue
        if out == "ok":
            # the returned value stems from a delivered answer of matching type/object/instance/property
            match = [a for a in answers_sent if a["key"] == key and a["value"] == rec["value"] and a["n"] < rec["n_ret"]]
            if r["kind"] == "write":
                match = [a for a in answers_sent if a["key"] == key and a["n"] < rec["n_ret"]]
            if not match:
                foreign = [a for a in answers_sent if a["value"] == rec["value"]]
                R.violate("C32.own-answer-only", "returned-foreign-answer" if foreign else "returned-unknown-value",
                          f"request {rec['i']} {key} returned {rec['value'].hex()}; server sent {[(a['key'], a['value'].hex() if isinstance(a['value'], bytes) else a['value']) for a in answers_sent][:6]}")
        else:
            # failures are prompt: after a close, a request waiting for its answer fails at that instant
            if info["closed_at"] is not None and rec["t_call"] <= info["closed_at"] <= rec["t_ret"]:
                # the close counts from the instant the client can know of it: its DisconnectResponse to a server
                # DisconnectRequest (a request transmitted while that frame is in flight starts a fresh 10 s
                # acknowledgement timeout); a DisconnectRequest that never arrived closes nothing at the client
                seen = info["closed_at"]
                if info.get("closed_by") == "srv":
                    seen = next((t for (n, t, it, kind, actor, detail) in R.events
                                 if t >= info["closed_at"] and kind in ("udp_out", "tcp_out")
                                 and (kind == "tcp_out" or str(actor).startswith(net.local_ip + ":"))
                                 and W.DISCONNECT_RES in [x[0] for x in W.split_all(bytes.fromhex(detail))]), None)
                    if seen is None:
                        R.probes["server_disconnect_not_seen_by_client"] += 1
                        continue
                elif info.get("closed_by") == "tcp":
                    # the client learns of the close when the end of the stream reaches it
                    seen = next((t for (n, t, it, kind, actor, detail) in R.events
                                 if t >= info["closed_at"] and kind == "tcp_lost"), info["closed_at"])
                elif info.get("closed_by") == "user" and info.get("user_disc_ret") is not None:
                    # disconnect() runs a Disconnect exchange with the server first; the connection is closed when it returns
                    seen = info["user_disc_ret"]
                    if rec["t_ret"] <= seen:
                        R.probes["failed_promptly_after_close"] += 1
                        continue
                late = rec["t_ret"] - seen
                # was the request still waiting for its acknowledgement (UDP) when the close became known?
                acked = True
                if tr == "udp":
                    # (the outstanding request = the one transmitted last; others wait behind it for the connection)
                    last = max(((t, W.split(bytes.fromhex(detail))[1][2]) for (n, t, it, kind, actor, detail) in R.events
                                if kind == "udp_out" and t <= seen and str(actor).startswith(net.local_ip + ":")
                                and (W.split(bytes.fromhex(detail)) or (0,))[0] == W.DEVCFG_REQ), default=None)
                    acked = last is not None and any(
                        kind == "udp_in" and last[0] <= t <= seen and f">{net.local_ip}:" in str(actor)
                        and (lambda sp: sp and sp[0] == W.DEVCFG_ACK and len(sp[1]) >= 4 and sp[1][2] == last[1] and sp[1][3] == 0)(
                            W.split(bytes.fromhex(detail)))
                        for (n, t, it, kind, actor, detail) in R.events)
                if late > 1e-6 and (acked or late > 10.0 + 1e-6):
                    R.violate("C32.prompt-failure", "failed-late-after-close", f"request {rec['i']} failed {late:.3f}s after the connection was closed")
                elif late > 1e-6:
                    R.violate("C32.prompt-failure", "failed-late-after-close:while-waiting-for-acknowledgement",
                              f"request {rec['i']}: the outstanding request was transmitted but not acknowledged yet when the connection was closed "
                              f"({info.get('closed_by')}); it failed {late:.3f}s later, when the acknowledgement timeout ran out")
                else:
                    R.probes["failed_promptly_after_close"] += 1
    # at most one request outstanding: first transmissions of distinct requests never overlap an unfinished one
    client_ip = net.local_ip
    outs = []
    for (n, t, it, kind, actor, detail) in R.events:
        if kind == "udp_out" and str(actor).startswith(client_ip + ":"):
            sp = W.split(bytes.fromhex(detail))
            if sp and sp[0] == W.DEVCFG_REQ and len(sp[1]) >= 4:
                outs.append((n, t, sp[1][2], sp[1][4:]))
    # nothing is transmitted on a connection the client knows to be closed (a repetition after the close would also
    # restart the acknowledgement timeout and so delay the failure of the pending request)
    if tr == "udp" and info["closed_at"] is not None:
        seen = info["closed_at"]
        if info.get("closed_by") == "srv":
            seen = next((t for (n, t, it, kind, actor, detail) in R.events
                         if t >= info["closed_at"] and kind == "udp_out" and str(actor).startswith(client_ip + ":")
                         and (W.split(bytes.fromhex(detail)) or (0,))[0] == W.DISCONNECT_RES), None)
        if seen is not None:
            for (n, t, ctr, raw) in outs:
                if t > seen + 1e-9:
                    R.violate("C32.prompt-failure", "request-sent-after-close",
                              f"DeviceConfigurationRequest (counter {ctr}) transmitted at {t:.6f}, the connection was closed at {seen:.6f}")
                    break
    # UDP: repetitions with the same counter, 10 s apart, at most 3
    if tr == "udp":
        i = 0
        counters = []
        while i < len(outs):
            j = i
            while j + 1 < len(outs) and outs[j + 1][2] == outs[i][2] and outs[j + 1][3] == outs[i][3]:
                j += 1
            reps = j - i
            if reps > 3:
                R.violate("C32.udp-repetitions", f"repeated-{reps}x", f"request with counter {outs[i][2]} transmitted {reps + 1} times")
            for a, b in zip(outs[i:j + 1], outs[i + 1:j + 1]):
                acked_between = any(e[3] == "udp_in" and a[0] < e[0] < b[0] and f">{client_ip}:" in str(e[4])
                                    and (W.split(bytes.fromhex(e[5])) or (0,))[0] == W.DEVCFG_ACK for e in R.events)
                if acked_between:
                    continue   # repetition triggered by an acknowledgement with an error status, not by the timeout
                if abs((b[1] - a[1]) - 10.0) > 1e-6:
                    R.violate("C32.udp-repetitions", "repetition-not-after-10s", f"repetition {b[1] - a[1]:.6f}s after the previous transmission")
            if reps:
                R.probes["udp_repetition_seen"] += 1
            counters.append(outs[i][2])
            i = j + 1
        # counters of distinct requests: 0,1,2,... per connection, advancing once per *accepted* request
        for a, b in zip(counters, counters[1:]):
            if b not in (a, (a + 1) & 0xFF):
                R.violate("C32.counter", "counter-skipped", f"counters of successive requests: {counters}")
        if counters and counters[0] != 0:
            R.violate("C32.counter", "first-counter!=0", f"{counters}")
        # the counter advances once per *accepted* request (ground truth at the server): a new request under counter a+1 may go
        # out only if the request under counter a was accepted by the server - a request the server never saw has to be
        # repeated under the same counter, or the connection given up
        firsts: list[tuple[int, int, bytes]] = []
        for (n_, t_, c_, cemi_) in outs:
            if not firsts or firsts[-1][1] != c_ or firsts[-1][2] != cemi_:
                firsts.append((n_, c_, cemi_))
        accepted_keys = {(q, bytes(c)) for (cid_, q, c) in gw.accepted}
        for (n1, c1, cemi1), (n2, c2, cemi2) in zip(firsts, firsts[1:]):
            if c2 != (c1 + 1) & 0xFF:
                continue
            if (c1, bytes(cemi1)) not in accepted_keys:
                # what did the client receive in between?  An answer frame (of an earlier, timed-out request) inside the
                # acknowledgement wait is what the documented "acknowledgement lost, answer arrived" fallback takes for the
                # answer to *this* request - a known finding; an advance with nothing but indications (or nothing at all)
                # in that window is not
                stale_con = False
                for e in R.events:
                    if n1 < e[0] < n2 and e[3] == "udp_in" and f">{client_ip}:" in str(e[4]):
                        sp_ = W.split(bytes.fromhex(e[5]))
                        if sp_ and sp_[0] == W.DEVCFG_REQ and len(sp_[1]) >= 5 and sp_[1][4] != 0xF7:
                            stale_con = True
                            break
                R.violate("C32.counter", "counter-advanced-without-accepted-request" + (":stale-answer-in-ack-window" if stale_con else ""),
                          f"the request under counter {c1} ({bytes(cemi1).hex()}) never reached the server, yet a new request went "
                          f"out under counter {c2}")
                break
        for x in gw.reused_counter:
            R.violate("C32.counter", "new-request-under-the-counter-of-an-accepted-one",
                      f"the server accepted a request with counter {x['seq']} and then received a different request "
                      f"({x['cemi'].hex()}) with the same counter")
            break
    # indications go to the indication callback only (never returned as a result): covered by own-answer-only; count them
    R.probes["indications_delivered"] += len(indications)
    for rec in results:
        if rec["out"] == "ok" and rec["value"] in (b"\xaa", b"\xbb"):
            R.violate("C32.indications", "indication-returned-as-answer", f"request {rec['i']}")
    R.check_escapes("C32.no-escape")
    if hasattr(gw, "violations"):
        for (clause, sig, detail) in gw.violations:
            R.violate("C32." + clause.split(".", 1)[1], sig, detail)
    R.extra_faults.update(gw.fired)
    abstract = [tr, [(r["kind"], r["answer"], r["ack"]) for r in reqs], [o["op"] for o in plan["ops"]], [x["out"] for x in results]]
    return R.result(nontrivial=nontrivial, abstract=abstract)
