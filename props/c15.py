"""C15 — Data Secure frames decrypt to exactly what was sent (piggy-backed on W-DS).

Honest note: the quantifier is over inputs; it is claimed because the statement is
two-party ("secured by one instance, accepted by another") and its oracle is an
invariant of the Data Secure bus simulation.  Inputs are sampled per seed; APDU
lengths cycle through 2..240 across a batch (index driven), both algorithms,
standard and extended frame formats.  Senders: a real xknx node through the public
send path (authenticated encryption), xknx's own SecureData.init_from_plain_apdu
(both algorithms) and the independent reference device.
"""

from __future__ import annotations

import asyncio
import random
from typing import Any

from sim import crypto as C
from sim import dsworld as D
from sim import wire as W
from sim.world import Run

ID = "C15"
LEVEL = "exploration"
RUNS = {"quick": 12000, "thorough": 1200000}
BUDGET = {"quick": 100.0, "thorough": 3300.0}
RULE = ("run i = ~12 secured frames with APDU lengths starting at 2 + (i mod 239) (every length 2..240 is reached within 239 "
        "runs), random keys / addresses / 48-bit sequence numbers, both algorithms, from three kinds of senders, over a "
        "fault-free or a duplicating/delaying/damaging (damaged copy, then intact repetition) bus; non-trivial = all frames delivered exactly once; distinct = distinct "
        "(sender kind, algorithm, APDU length) triples")
REAL = ["xknx.secure.data_secure.DataSecure (sender and receiver)", "xknx.secure.data_secure_asdu.SecureData",
        "xknx.cemi.CEMIHandler / CEMIFrame codec", "xknx.core.TelegramQueue", "xknx.telegram.apci"]
STUB = ["KNXIPInterface of both nodes (StubInterface) + bus", "reference device (sim.crypto)", "loop (SimLoop)"]
ASSUMPTIONS = ["only T_Data_Group frames: the receive path supports secure group communication only",
               "APDU length 1 is not a well-formed APDU (covered as malformed content by C18)"]
MAXSEQ = 0xFFFFFFFFFFFF


def preflight():
    return C.anchor_selftest()


def gen_index(i: int, seed: int, tier: str) -> dict[str, Any]:
    rng = random.Random(seed)
    frames = []
    n = 12
    for j in range(n):
        ln = 2 + ((i * n + j) % 239)
        kind = rng.choice(["real", "xknx_asdu", "ref"])
        algo = "enc" if kind == "real" else rng.choice(["enc", "auth"])
        frames.append({"kind": kind, "algo": algo, "len": ln, "short": ln == 2 and rng.random() < 0.5,
                       "ext_format": 0, "hops": rng.randrange(8), "prio": rng.randrange(4),
                       # transport PDU: T_Data_Group or T_Data_Tag_Group (the only other group TPDU; non-zero TPCI bits)
                       "tpci": "group" if kind == "ref" else rng.choice(["group", "group", "tag"]),
                       # the one sending instance sends under several source addresses (explicit source_address, or its
                       # own address changing as after a tunnel reconnect)
                       "src_i": rng.randrange(3), "src_via": rng.choice(["explicit", "current"])})
    faulty = rng.random() < 0.4
    return {"seed": seed, "tier": "S", "config": {"batch": 1, "handoff_failures": rng.random() < 0.3,
                                                   # the sender's Data Secure is set up from the keyring (numbers seeded from
                                                   # the clock) and set up again before frame k, as on stop() / start() of
                                                   # the same XKNX object
                                                   "restart_before": rng.randrange(1, len(frames)) if len(frames) > 1
                                                   and rng.random() < 0.2 else None},
            "frames": frames, "fault_policy": {"dup": 0.2, "delay": 0.2, "delays": [0.003, 0.05], "dup_delays": [0.001, 0.1],
                             "corrupt": 0.15} if faulty else None,
            "ops": []}


def gen(seed, tier):
    return gen_index(seed % 239, seed, tier)


SHRINK_LISTS = ("frames",)


def run(plan: dict[str, Any]) -> dict[str, Any]:
    from xknx.cemi.flags import CEMIAddressType, CEMIFrameFormat
    from xknx.dpt import DPTArray, DPTBinary
    from xknx.secure.data_secure_asdu import SecureData, SecurityControlField
    from xknx.telegram import GroupAddress, IndividualAddress, Telegram
    from xknx.telegram.apci import GroupValueWrite
    from xknx.telegram.tpci import TDataGroup, TDataTagGroup

    R = Run(plan, max_time=5000.0)
    loop = R.loop
    rng = random.Random(plan["seed"] ^ 0xC15)
    ga = rng.randrange(1, 0xFFFF)
    ga2 = (ga % 0xFFFE) + 1
    keys = {ga: rng.randbytes(16), ga2: rng.randbytes(16)}
    ia_real, ia_x, ia_ref, ia_real1, ia_real2 = rng.sample(range(0x1001, 0xFFFE), 5)
    real_srcs = [ia_real, ia_real1, ia_real2]
    rx_ia = 0x5001
    rx = D.Node(R, "rx", rx_ia, keys, {ia_real: 0, ia_x: 0, ia_ref: 0, ia_real1: 0, ia_real2: 0})
    start_real = rng.randrange(1, MAXSEQ - 100)
    tx = D.Node(R, "tx", ia_real, keys, {}, last_seq_sending=start_real)
    seqs = {"xknx_asdu": rng.randrange(1, MAXSEQ - 100), "ref": rng.randrange(1, MAXSEQ - 100)}
    sent: list[dict[str, Any]] = []
    pending_real: list[bytes] = []

    last_t = [0.0]

    def to_bus(raw):
        # FIFO bus: duplicates (= replays) and jitter, but no reordering - a reordered frame is legitimately stale (C17)
        d = R.faults.decide("bus", len(raw))
        t = max(loop.time() + d["lat"], last_t[0])
        if "corrupt" in d:
            # a transmission damaged on the line, followed by its link-layer repetition: the intact frame still has to
            # be accepted (the damaged copy must not use up its sequence number)
            off, bit = d["corrupt"]
            bad = bytearray(raw)
            bad[off] ^= 1 << bit
            loop.at(t, lambda: rx.stub.deliver(bytes(bad), "bus_damaged"), label="bus_damaged")
            t += 0.002
        last_t[0] = t
        loop.at(t, lambda: rx.stub.deliver(raw, "bus"), label="bus")
        if "dup" in d:
            loop.at(t + d["dup"], lambda: rx.stub.deliver(raw, "bus"), label="bus_dup")

    async def main():
        await rx.xknx.start()
        await tx.xknx.start()

        def on_send(raw, rec):
            to_bus(bytes((W.L_DATA_IND,)) + raw[1:])
        tx.stub.on_send = on_send
        if plan["config"].get("handoff_failures"):
            # the frame goes out (and is heard on the bus) but its hand-off fails all the same - e.g. the tunnel lost the
            # acknowledgements: the next secured frame of that instance must still be accepted
            frng = random.Random(plan["seed"] ^ 0xFA11)
            tx.stub.pick = lambda raw, i: ({"lat": 0.002, "out": "comm_error_sent"} if frng.random() < 0.2 else None)
        rb = plan["config"].get("restart_before")
        if rb is not None:
            tx.restart_data_secure()
        for fi, f in enumerate(plan["frames"]):
            if rb is not None and fi == rb:
                await tx.xknx.telegrams.join()
                await asyncio.sleep(0.2)
                tx.restart_data_secure()
                R.extra_faults["sender_data_secure_set_up_again_from_keyring"] += 1
            ln = f["len"]
            dst = rng.choice([ga, ga2])
            if ln == 2:
                v = rng.randrange(64)
                apdu = bytes((0x00, 0x80 | v))
                payload = GroupValueWrite(DPTBinary(v))
            else:
                data = rng.randbytes(ln - 2)
                apdu = bytes((0x00, 0x80)) + data
                payload = GroupValueWrite(DPTArray(tuple(data)))
            tag = f.get("tpci") == "tag"
            rec = {"kind": f["kind"], "algo": f["algo"], "len": ln, "apdu": apdu, "dst": dst, "tag": tag}
            if f["kind"] == "real":
                src = real_srcs[f.get("src_i", 0)]
                rec["src"] = src
                if f.get("src_via") == "explicit":
                    tx.xknx.telegrams.put_nowait(Telegram(destination_address=GroupAddress(dst), payload=payload,
                                                          source_address=IndividualAddress(src),
                                                          tpci=TDataTagGroup() if tag else None))
                else:
                    await tx.xknx.telegrams.join()
                    tx.xknx.current_address = IndividualAddress(src)
                    tx.xknx.telegrams.put_nowait(Telegram(destination_address=GroupAddress(dst), payload=payload,
                                                          tpci=TDataTagGroup() if tag else None))
                    await tx.xknx.telegrams.join()
            else:
                src = ia_x if f["kind"] == "xknx_asdu" else ia_ref
                rec["src"] = src
                seq = seqs[f["kind"]]
                seqs[f["kind"]] = seq + rng.randint(1, 1000)
                scf = D.SCF_ENC if f["algo"] == "enc" else D.SCF_AUTH
                asdu = None
                if f["kind"] == "xknx_asdu":
                    sd = SecureData.init_from_plain_apdu(
                        key=keys[dst], apdu=apdu, scf=SecurityControlField.from_knx(scf), sequence_number=seq,
                        address_fields_raw=src.to_bytes(2, "big") + dst.to_bytes(2, "big"),
                        address_type=CEMIAddressType.GROUP, frame_format=CEMIFrameFormat.STANDARD,
                        tpci=TDataTagGroup() if tag else TDataGroup())
                    asdu = sd.to_knx()
                    # the independent implementation agrees for authenticated encryption (C19's clause); for the
                    # authentication-only algorithm no real-world vector exists, so a difference is only a probe
                    mine = C.ds_secure(keys[dst], apdu, scf, seq, src, dst, True, 0, 0x04 if tag else 0x00)
                    if tag:
                        R.probes["tag_group_frames"] += 1
                    if mine != asdu:
                        if f["algo"] == "enc":
                            R.violate("C19.conformance", "init_from_plain_apdu!=reference", f"len {ln}: {asdu.hex()} vs {mine.hex()}")
                        else:
                            R.probes["auth_only_differs_from_unanchored_reference"] += 1
                ctrl1 = (0xB0 if ln + 11 <= 15 else 0x30) | (f["prio"] << 2)
                to_bus(D.secure_frame(keys[dst], apdu, seq, src, dst, scf=scf, ctrl1=ctrl1, hops=f["hops"], asdu=asdu,
                                      tpci=0x04 if tag else 0x00))
            sent.append(rec)
            await asyncio.sleep(rng.choice([0.0, 0.001, 0.02]))
        await asyncio.sleep(5.0)
        await tx.xknx.stop()
        await rx.xknx.stop()

    R.execute(main())
    # T_Data_Tag_Group telegrams are handed to management, not to the telegram queue: both are "delivered"
    got = [(d["src"], d["dst"], d["apdu"], d["secure"]) for d in rx.delivered]
    got += [(d["src"], d["dst"], d["apdu"], d["secure"]) for d in rx.mgmt_seen if d["tpci"] == "TDataTagGroup"]
    ok = True
    for s in sent:
        k = sum(1 for g in got if g[0] == s["src"] and g[1] == s["dst"] and g[2] == s["apdu"])
        if k != 1:
            ok = False
            others = [g[2].hex()[:20] for g in got if g[0] == s["src"]][:3]
            R.violate("C15.exact-delivery", f"{s['kind']}/{s['algo']}:delivered-{k}x",
                      f"frame from {s['src']:04x} to {s['dst']:04x} APDU length {s['len']} ({s['apdu'].hex()[:24]}..) delivered {k} times; "
                      f"deliveries from that sender: {others}")
    for g in got:
        if not any(g[0] == s["src"] and g[2] == s["apdu"] for s in sent):
            ok = False
            R.violate("C15.exact-delivery", "delivered-apdu-differs-from-any-sent", f"{g[0]:04x}->{g[1]:04x} {g[2].hex()[:40]}")
        if g[3] is not True:
            R.violate("C15.marked-secure", "delivered-without-data_secure-flag", f"{g[0]:04x}->{g[1]:04x}")
    R.check_escapes("C15.no-escape")
    for s in sent:
        R.probes[f"len_{'2' if s['len'] == 2 else '3-15' if s['len'] <= 15 else '16-100' if s['len'] <= 100 else '101-240'}"] += 1
        R.probes[f"{s['kind']}_{s['algo']}"] += 1
    return R.result(nontrivial=ok, abstract=[(s["kind"], s["algo"], s["len"]) for s in sent])
