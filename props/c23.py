"""C23 — server-sent tunnel and management frames are delivered once, in order.

W-TUN (real UDPTunnel) and W-DM (real DeviceManagement handler on a real
UDPTransport, and a real UDPDeviceManagementConnection).  The gateway sends
requests with counters from {next, previous, skipped, random, burst}; the network
drops, duplicates and delays them.  Oracle: reference counter (Appendix B.1)
stepped over the requests *as delivered to the client socket*.
"""

from __future__ import annotations

import asyncio
import random
from typing import Any

from sim import shadow as SH
from sim import wire as W
from sim.gateway import SimGateway
from sim.world import Run

ID = "C23"
LEVEL = "exploration"
RUNS = {"quick": 24000, "thorough": 3000000}
BUDGET = {"quick": 100.0, "thorough": 3300.0}
RULE = ("one run = one seeded history of server-sent TunnellingRequests / DeviceConfigurationRequests (counters "
        "next/previous/skip/random/burst, wrap-around runs of 600 frames) over a dropping, duplicating, delaying "
        "network against the real UDPTunnel / DeviceManagement / UDPDeviceManagementConnection; non-trivial = at "
        "least one fault or non-'next' counter was delivered; distinct = distinct sequence of (model verdict, "
        "observed ack/pass-up) pairs")
REAL = ["xknx.io.tunnel.UDPTunnel", "xknx.io.device_management.DeviceManagement",
        "xknx.io.device_management_connection.UDPDeviceManagementConnection",
        "xknx.io.data_connection.IncomingSequenceCounter", "xknx.io.transport.UDPTransport", "xknx.knxip codecs"]
STUB = ["gateway (sim.gateway.SimGateway)", "network (sim.net.SimNet)", "loop clock/selector (sim.loop.SimLoop)"]
ASSUMPTIONS = ["CPython 3.12 BaseEventLoop scheduling semantics",
               "the epoch of the reference counter starts when the client's ConnectRequest is put on the wire",
               "incoming TunnellingRequests are judged by counter only (the statement is silent on foreign channel ids)"]

GA = W.ga(2, 3, 4)


def gen(seed: int, tier: str) -> dict[str, Any]:
    rng = random.Random(seed)
    mode = rng.choice(["tunnel", "tunnel", "tunnel", "dm_handler", "dm_conn"])
    long_run = rng.random() < 0.04
    n = 600 if long_run else rng.choice([3, 6, 10, 20, 40])
    ops = []
    t = 0.05
    weights = rng.choice([
        {"next": 1.0},
        {"next": 0.7, "prev": 0.1, "skip": 0.1, "rand": 0.1},
        {"next": 0.5, "prev": 0.2, "skip": 0.1, "rand": 0.1, "burst": 0.1},
        {"next": 0.85, "burst": 0.15},
    ])
    if long_run:
        weights = rng.choice([{"next": 1.0}, {"next": 0.97, "prev": 0.02, "rand": 0.01}])
    kinds = list(weights)
    for _ in range(n):
        t += 0.004 if long_run else rng.choice([0.0, 0.001, 0.01, 0.1, 0.5, 1.0, 2.1])
        k = rng.choices(kinds, [weights[x] for x in kinds])[0]
        op = {"t": round(t, 6), "op": "srv", "k": k}
        if k == "rand":
            op["seq"] = rng.randrange(256)
        if k == "burst":
            op["n"] = rng.randint(2, 4)
        if mode != "tunnel" and rng.random() < 0.1:
            op["foreign_channel"] = True
        ops.append(op)
    policy = None
    if rng.random() < 0.75:
        policy = {"drop": rng.choice([0.0, 0.03, 0.1]), "dup": rng.choice([0.0, 0.05, 0.15]),
                  "delay": rng.choice([0.0, 0.05, 0.15]),
                  "delays": [0.002, 0.02, 0.3, 1.0, 2.5]}
    if mode == "tunnel" and rng.random() < 0.25:
        for _ in range(rng.randint(1, 2)):
            ops.append({"t": round(rng.uniform(0.05, t + 0.5), 6), "op": "srv_disconnect"})
    ops.sort(key=lambda o: o["t"])
    cfg = {"mode": mode, "auto_reconnect": rng.random() < 0.85, "local_port": rng.choice([0, 52000]),
           "batch": 1 if (rng.random() < 0.75 or mode == "dm_conn") else 3,
           "route_back": rng.random() < 0.2, "first_channel": rng.choice([1, 9, 255]),
           # long runs: at the wrap of the counter the frame numbered 0 overtakes the one numbered 255 (reordered on the way)
           "swap_at_wrap": long_run and rng.random() < 0.6,
           # a second tunnel (own XKNX object, own gateway) lives in the same process and is busy meanwhile
           "shadow": mode == "tunnel" and rng.random() < 0.15}
    return {"seed": seed, "tier": "S" if cfg["batch"] == 1 else "P", "config": cfg, "ops": ops,
            "fault_policy": policy}


def _payload(mode: str, i: int) -> bytes:
    if mode == "tunnel":
        return W.cemi_ldata(W.L_DATA_IND, 0x1101, GA, tpci_apci=W.gv_write(i.to_bytes(2, "big")))
    # M_PropInfo.ind for object KNXNETIP_PARAMETER(0x000B) instance 1 property 0x45, 1 element, index 1
    return bytes((0xF7, 0x00, 0x0B, 0x01, 0x45, 0x10, 0x01)) + i.to_bytes(2, "big")


def run(plan: dict[str, Any]) -> dict[str, Any]:
    from xknx import XKNX
    from xknx.exceptions import CommunicationError
    from xknx.io.device_management import DeviceManagement
    from xknx.io.device_management_connection import UDPDeviceManagementConnection
    from xknx.io.transport import UDPTransport
    from xknx.io.tunnel import UDPTunnel

    cfg = plan["config"]
    mode = cfg["mode"]
    R = Run(plan, max_time=5000.0)
    loop, net = R.loop, R.net
    gw = SimGateway(net, script={"first_channel": cfg["first_channel"]})
    counter = [0]

    def passup(raw):
        R.record("passup", "client", bytes(raw).hex())

    async def main():
        dm_channel = 7
        if mode == "tunnel":
            xknx = XKNX()
            client = UDPTunnel(xknx, cemi_received_callback=passup, gateway_ip=gw.ip, gateway_port=gw.port,
                               local_ip=net.local_ip, local_port=cfg["local_port"], route_back=cfg["route_back"],
                               auto_reconnect=cfg["auto_reconnect"], auto_reconnect_wait=1)
            try:
                await client.connect()
            except CommunicationError:
                R.probes["initial_connect_failed"] += 1
                return
        elif mode == "dm_conn":
            client = UDPDeviceManagementConnection(gw.ip, gw.port, net.local_ip, local_port=cfg["local_port"],
                                                   route_back=cfg["route_back"],
                                                   indication_callback=lambda c: passup(c.to_knx()))
            try:
                await client.connect()
            except CommunicationError:
                R.probes["initial_connect_failed"] += 1
                return
        else:
            tr = UDPTransport((net.local_ip, 52001), (gw.ip, gw.port))
            await tr.connect()
            client = DeviceManagement(tr, dm_channel, cemi_received_callback=passup, data_endpoint=None)
            R.record("epoch", "client", "")
            client.start()
        t0 = loop.time()

        def send(cid, seq, foreign=False):
            counter[0] += 1
            cemi = _payload(mode, counter[0])
            wire_cid = (cid % 255) + 1 if foreign else cid
            if mode == "dm_handler":
                gw.sock.sendto(W.devcfg_request(wire_cid, seq, cemi), (net.local_ip, 52001))
            else:
                ch = gw.channels.get(cid)
                if ch is None:
                    return
                fr = (W.tunnelling_request if mode == "tunnel" else W.devcfg_request)(wire_cid, seq, cemi)
                gw.sock.sendto(fr, ch.data)

        state = {"tx": 0, "cid": None}

        def do(op):
            if op["op"] == "srv_disconnect":
                if gw.server_disconnect() is not None:
                    R.extra_faults["srv_disconnect"] += 1
                return
            if mode == "dm_handler":
                cid = dm_channel
            else:
                cid = gw.last_cid
                if cid not in gw.channels:
                    return
            if state["cid"] != cid:
                state["cid"] = cid
                state["tx"] = 0
            k = op["k"]
            foreign = bool(op.get("foreign_channel"))
            tx = state["tx"]
            if k == "next" and tx == 255 and cfg.get("swap_at_wrap") and not foreign:
                send(cid, 0, foreign)
                send(cid, 255, foreign)
                state["tx"] = 0         # the frame numbered 0 was not accepted: it comes again
                R.extra_faults["reordered_at_counter_wrap"] += 1
            elif k == "next":
                send(cid, tx, foreign)
                if not foreign:
                    state["tx"] = (tx + 1) & 0xFF
            elif k == "prev":
                send(cid, (tx - 1) & 0xFF, foreign)
                R.extra_faults["ctr_prev"] += 1
            elif k == "skip":
                send(cid, (tx + 1) & 0xFF, foreign)
                R.extra_faults["ctr_skip"] += 1
            elif k == "rand":
                send(cid, op["seq"], foreign)
                R.extra_faults["ctr_rand"] += 1
            elif k == "burst":
                for _ in range(op["n"]):
                    send(cid, state["tx"], foreign)
                    if not foreign:
                        state["tx"] = (state["tx"] + 1) & 0xFF
                R.extra_faults["burst"] += 1
            if foreign:
                R.extra_faults["foreign_channel"] += 1

        tlast = 0.0
        for op in plan["ops"]:
            loop.at(t0 + op["t"], (lambda o=op: do(o)), label="op")
            tlast = max(tlast, op["t"])
        sh = None
        if cfg.get("shadow"):
            sh = SH.start(R, SH.udp_tunnel_life(R, horizon=tlast + 3.0, seed=plan["seed"], first_channel=cfg["first_channel"],
                                                period=max(0.02, (tlast + 0.5) / 12), start_after=min(0.3, tlast / 3)))
        await asyncio.sleep(tlast + 4.0)
        await SH.finish(sh)
        try:
            if mode == "dm_handler":
                client.stop()
                tr.stop()
            else:
                await client.disconnect()
        except CommunicationError:
            pass
        await asyncio.sleep(0.05)

    R.execute(main())
    abstract = oracle(R, mode)
    return R.result(nontrivial=R.probes["nontrivial"] > 0, abstract=abstract)


def oracle(R: Run, mode: str):
    client_ip = R.net.local_ip
    req_svc = W.TUNNEL_REQ if mode == "tunnel" else W.DEVCFG_REQ
    ack_svc = W.TUNNEL_ACK if mode == "tunnel" else W.DEVCFG_ACK
    e = 0
    started = mode == "tunnel"   # a tunnel's handler is registered from construction on
    my_channel = None
    cur = None       # current delivered request awaiting its observed reactions
    abstract: list[Any] = []
    awaiting_connect = [False]
    exp_passed: list[str] = []
    got_passed: list[str] = []

    def close(cur):
        if cur is None:
            return
        want_ack, want_pass = cur["want"]
        acks = cur["acks"]
        passes = cur["passes"]
        abstract.append((cur["verdict"], len(acks), len(passes)))
        if want_ack:
            if len(acks) != 1:
                R.violate("C23.ack", f"{cur['verdict']}:acks={len(acks)}",
                          f"request ctr={cur['seq']} (expected {cur['e']}) got {len(acks)} ACKs")
            elif acks[0][1] != cur["seq"] or acks[0][0] != cur["ch"]:
                R.violate("C23.ack", f"{cur['verdict']}:ack-mismatch",
                          f"request ch={cur['ch']} ctr={cur['seq']} acknowledged as ch={acks[0][0]} ctr={acks[0][1]}")
            elif acks[0][2] != 0:
                R.violate("C23.ack", f"{cur['verdict']}:ack-status",
                          f"request ctr={cur['seq']} acknowledged with status {acks[0][2]}")
        elif acks:
            R.violate("C23.ack", f"{cur['verdict']}:unexpected-ack",
                      f"request ctr={cur['seq']} (expected {cur['e']}) must not be acknowledged, got {acks}")
        if want_pass:
            if len(passes) != 1 or passes[0] != cur["cemi"]:
                R.violate("C23.passup", f"{cur['verdict']}:passed={len(passes)}",
                          f"request ctr={cur['seq']} expected to be passed up once, got {len(passes)}")
        elif passes:
            R.violate("C23.passup", f"{cur['verdict']}:unexpected-passup",
                      f"request ctr={cur['seq']} (expected {cur['e']}) was passed up")

    for (n, t, it, kind, actor, detail) in R.events:
        if kind == "udp_out" and str(actor).startswith(client_ip + ":"):
            data = bytes.fromhex(detail)
            sp = W.split(data)
            if not sp:
                continue
            if sp[0] == W.CONNECT_REQ:
                close(cur)
                cur = None
                awaiting_connect[0] = True
                if mode == "tunnel":
                    e = 0
                    abstract.append(("epoch",))
                    R.probes["epochs"] += 1
            elif sp[0] == ack_svc and len(sp[1]) >= 4:
                if cur is not None:
                    cur["acks"].append((sp[1][1], sp[1][2], sp[1][3]))
                else:
                    R.violate("C23.ack", "ack-without-request", f"ACK {sp[1].hex()} with no delivered request")
        elif kind == "epoch":
            e = 0
            started = True
        elif kind == "udp_in" and f">{client_ip}:" in str(actor):
            data = bytes.fromhex(detail)
            sp = W.split(data)
            if not sp:
                continue
            if (sp[0] == W.CONNECT_RES and mode == "dm_conn" and len(sp[1]) >= 2 and sp[1][1] == 0
                    and awaiting_connect[0]):
                awaiting_connect[0] = False
                close(cur)
                cur = None
                e = 0
                started = True
                my_channel = sp[1][0]
            if sp[0] != req_svc or len(sp[1]) < 4:
                continue
            close(cur)
            ch, seq = sp[1][1], sp[1][2]
            cemi = sp[1][4:].hex()
            if mode == "dm_handler":
                my_channel = 7
            if not started:
                verdict, want = "before-start", (False, False)
            elif mode != "tunnel" and ch != my_channel:
                verdict, want = "foreign-channel", (False, False)
                R.probes["nontrivial"] += 1
            elif seq == e:
                verdict, want = "expected", (True, True)
                e = (e + 1) & 0xFF
                exp_passed.append(cemi)
                if e == 0:
                    R.probes["wraparound_reached"] += 1
            elif seq == (e - 1) & 0xFF:
                verdict, want = "repeated", (True, False)
                R.probes["nontrivial"] += 1
                R.probes["repeated_delivered"] += 1
            else:
                verdict, want = "out-of-order", (False, False)
                R.probes["nontrivial"] += 1
                R.probes["out_of_order_delivered"] += 1
            cur = {"seq": seq, "ch": ch, "cemi": cemi, "e": (e - 1) & 0xFF if verdict == "expected" else e,
                   "verdict": verdict, "want": want, "acks": [], "passes": []}
        elif kind == "passup":
            got_passed.append(detail)
            if cur is not None:
                cur["passes"].append(detail)
            else:
                R.violate("C23.passup", "passup-without-request", "cEMI passed up with no delivered request")
    close(cur)
    if got_passed != exp_passed:
        R.violate("C23.passup", "passed-up-list!=model", f"passed up {len(got_passed)} frames, model {len(exp_passed)}")
    if sum(R.faults.fired.values()):
        R.probes["nontrivial"] += 1
    return abstract
