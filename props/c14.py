"""C14 — received link frames reach exactly the right consumer, once; sends need a later confirmation.

W-RUN: real XKNX (CEMIHandler, Management, TelegramQueue objects) with the stub
interface.  Frames built by the independent cEMI encoder are handed in through
`KNXIPInterface.cemi_received` at planned instants, interleaved with 1-3
concurrent `send_telegram` callers whose confirmations are placed before the
hand-off returns, after it, around `return + 3 s`, or never.
"""

from __future__ import annotations

import asyncio
import random
from typing import Any

from sim import wire as W
from sim.runworld import make_xknx
from sim.world import Run
from sim import e2e as E

ID = "C14"
LEVEL = "exploration"
RUNS = {"quick": 40000, "thorough": 3000000}
BUDGET = {"quick": 100.0, "thorough": 3300.0}
RULE = ("one run = one seeded sequence of received cEMI frames (message code x destination kind x TPCI kind) interleaved "
        "with concurrent send_telegram calls whose L_Data.con is placed before/after hand-off return, at return+3s+-eps or "
        "never; non-trivial = at least one non-group frame, foreign/own destination, misplaced or missing confirmation, "
        "or overlapping send; distinct = distinct sequence of (frame class, consumer) and (send outcome class)")
REAL = ["xknx.cemi.CEMIHandler", "xknx.cemi.CEMIFrame codec", "xknx.management.Management.process",
        "xknx.core.TaskRegistry.background", "xknx.XKNX object"]
STUB = ["KNXIPInterface (sim.runworld.StubInterface: planned send_cemi latency/outcome/confirmation)",
        "xknx.telegrams (recording asyncio.Queue subclass)", "loop (SimLoop)"]
E2E_NOTE = ("whole-stack mode (1 run in 12): real XKNX.start() over a real UDP/TCP tunnel against the gateway + bus model of "
            "sim/e2e.py with datagram loss / duplication / delay, gateway crashes and disconnects; this module's clauses "
            "judged across the seams")

REAL = REAL + ["whole-stack mode: " + ", ".join(E.REAL)]
STUB = STUB + ["whole-stack mode: " + ", ".join(E.STUB)]
ASSUMPTIONS = [E2E_NOTE, "concurrent sends share one confirmation event in the code; the statement allows that, so for overlapping "
               "sends only 'returned OK => a confirmation was handled after its hand-off' is judged",
               "a confirmation landing exactly at return+3s (same instant as the timeout) is unjudged"]

OWN = W.ia(1, 1, 5)
FOREIGN = W.ia(1, 1, 9)
PEER = W.ia(1, 1, 20)
GA1 = W.ga(1, 0, 7)
TPCI_KINDS = ["group", "broadcast", "individual", "connected", "connect", "disconnect", "ack", "nak"]


def build_frame(op: dict[str, Any]) -> bytes:
    k = op["tpci"]
    code = op["code"]
    seq = op.get("seq", 0) & 0xF
    dk = op["dst"]
    if code not in (W.L_DATA_IND, W.L_DATA_CON, W.L_DATA_REQ):
        if code == 0xFB:   # M_PropRead.con
            return bytes((0xFB, 0x00, 0x0B, 0x01, 0x34, 0x10, 0x01, 0x00))
        if code == 0xF0:   # M_Reset.ind
            return bytes((0xF0,))
        return bytes((code, 0x00, 0xBC, 0xE0, 0x11, 0x01, 0x08, 0x07, 0x01, 0x00, 0x81))
    if k == "group":
        return W.cemi_ldata(code, PEER, op.get("ga") or GA1 + op.get("sub", 0), group=True,
                            tpci_apci=W.gv_write_small(op.get("v", 1)))
    if k == "broadcast":
        return W.cemi_ldata(code, PEER, 0, group=True, tpci_apci=bytes((0x01, 0x00)))  # A_IndividualAddress_Read
    dst = OWN if dk == "own" else op.get("fdst", FOREIGN)
    if k == "individual":
        return W.cemi_ldata(code, PEER, dst, group=False, tpci_apci=bytes((0x03, 0x00)), ctrl1=0xB0)
    if k == "connected":
        return W.cemi_ldata(code, PEER, dst, group=False, tpci_apci=bytes((0x43 | (seq << 2), 0x00)), ctrl1=0xB0)
    octet = {"connect": 0x80, "disconnect": 0x81, "ack": 0xC2 | (seq << 2), "nak": 0xC3 | (seq << 2)}[k]
    return W.cemi_ldata(code, PEER, dst, group=False, tpci_apci=bytes((octet,)), ctrl1=0xB0)


def gen(seed: int, tier: str) -> dict[str, Any]:
    if seed % 12 == 7:
        # one run in 12: the same clauses across the seams, on the whole stack (sim/e2e.py)
        return E.gen(seed, tier, "C14")
    rng = random.Random(seed)
    ops: list[dict[str, Any]] = []
    n_frames = rng.choice([0, 3, 8, 20, 40])
    horizon = rng.choice([1.0, 5.0, 12.0])
    profile = rng.choice(["group_mostly", "mixed", "mgmt"])
    for _ in range(n_frames):
        code = rng.choices([W.L_DATA_IND, W.L_DATA_CON, W.L_DATA_REQ, 0xFB, 0xF0, 0x2B, 0x77],
                           [12, 3, 2, 1, 1, 1, 1])[0]
        if profile == "group_mostly":
            tp = rng.choices(TPCI_KINDS, [10, 1, 1, 1, 1, 1, 1, 1])[0]
        elif profile == "mgmt":
            tp = rng.choices(TPCI_KINDS, [1, 2, 2, 4, 2, 2, 2, 1])[0]
        else:
            tp = rng.choice(TPCI_KINDS)
        ops.append({"t": round(rng.choice([rng.uniform(0, horizon), rng.uniform(0, 0.01)]), 6), "op": "frame",
                    "code": code, "tpci": tp, "dst": rng.choice(["own", "own", "foreign"]),
                    "seq": rng.randrange(16), "sub": rng.randrange(3), "v": rng.randrange(64)})
        if ops[-1]["dst"] == "foreign" and rng.random() < 0.5:
            # other devices' addresses at the edges of the 16-bit space and next to the own one (no individual address is a
            # broadcast address)
            ops[-1]["fdst"] = rng.choice([0x0000, 0x0001, 0x00FF, 0x0100, 0xFFFF, 0xFF00, OWN - 1, OWN + 1, OWN ^ 0x8000,
                                          rng.randrange(0x10000)])
            if ops[-1]["fdst"] == OWN:
                ops[-1]["fdst"] = FOREIGN
        if tp == "group" and rng.random() < 0.25:
            # group addresses at the edges of the 16-bit space (only 0 is the broadcast address)
            ops[-1]["ga"] = rng.choice([0x0001, 0x00FF, 0x0100, 0x07FF, 0x0800, 0x7FFF, 0x8000, 0x8001, 0xFF00, 0xFFFF,
                                        rng.randrange(1, 0x10000)])
    n_sends = rng.choice([0, 1, 2, 3, 5, 8])
    sends = {}
    t = 0.0
    for i in range(n_sends):
        t += rng.choice([0.0, 0.0005, 0.01, 0.5, 3.2, 4.0])
        ops.append({"t": round(t, 6), "op": "send", "id": i + 1})
        r = rng.random()
        if r < 0.12:
            b = {"lat": rng.choice([0.0, 0.002]), "out": "comm_error", "con": "never"}
        else:
            b = {"lat": rng.choice([0.0, 0.001, 0.002, 0.5]), "out": "ok"}
            ck = rng.choices(["after", "before_return", "never"], [6, 2, 2])[0]
            b["con"] = ck
            if ck == "after":
                b["con_d"] = rng.choice([0.0, 0.0005, 0.003, 1.0, 2.9, 2.999999, 3.0, 3.000001, 3.5])
        sends[str(i + 1)] = b
    if rng.random() < 0.35:
        # a management point-to-point connection to the peer that also sends the frames is open for part of the run:
        # frames of that peer addressed to *another* interface must still not reach management
        tc = round(rng.choice([0.0, rng.uniform(0, horizon)]), 6)
        ops.append({"t": tc, "op": "mgmt_connect"})
        if rng.random() < 0.4:
            ops.append({"t": round(tc + rng.uniform(0.05, horizon), 6), "op": "mgmt_disconnect"})
    ops.sort(key=lambda o: o["t"])
    return {"seed": seed, "tier": "S", "config": {"batch": 1}, "ops": ops, "sends": sends}


def run(plan: dict[str, Any]) -> dict[str, Any]:
    if plan["config"].get("mode") == "e2e":
        R, obs = E.run(plan)
        E.judge_c14(R, obs)
        return E.finish(R, obs)
    from xknx.dpt import DPTArray
    from xknx.exceptions import CommunicationError, ConfirmationError
    from xknx.management import Management
    from xknx.telegram import GroupAddress, IndividualAddress, Telegram
    from xknx.telegram.apci import GroupValueWrite

    R = Run(plan, max_time=2000.0)
    loop = R.loop
    xknx, stub, q = make_xknx(R)
    xknx.current_address = IndividualAddress(OWN)

    class RecMgmt(Management):
        __slots__ = ()

        def process(self, telegram):
            R.record("mgmt_process", "management", type(telegram.tpci).__name__)
            return super().process(telegram)

    xknx.management = RecMgmt(xknx)
    sends_plan = plan.get("sends") or {}

    def pick(raw: bytes, i: int):
        c = W.parse_cemi_ldata(raw)
        if c and c["group"] and len(c["tpdu"]) >= 4 and c["dst"] == GA1 + 5:
            return sends_plan.get(str(int.from_bytes(c["tpdu"][2:4], "big")))
        return None

    stub.pick = pick
    send_recs: dict[int, dict[str, Any]] = {}

    async def do_send(sid: int):
        tg = Telegram(destination_address=GroupAddress(GA1 + 5),
                      payload=GroupValueWrite(DPTArray(tuple(sid.to_bytes(2, "big")))))
        rec = send_recs[sid] = {"call": R.record("op_call", "user", f"send:{sid}"), "out": None, "ret": None,
                                "ret_t": None, "exc": None}
        try:
            await xknx.cemi_handler.send_telegram(tg)
            rec["out"] = "ok"
        except ConfirmationError as exc:
            rec["out"] = "confirmation_error"
            rec["exc"] = str(exc)
        except CommunicationError as exc:
            rec["out"] = "comm_error"
            rec["exc"] = str(exc)
        except asyncio.CancelledError:
            rec["out"] = "cancelled"
            raise
        except Exception as exc:  # pylint: disable=broad-except
            rec["out"] = "other:" + type(exc).__name__
        finally:
            rec["ret"] = R.record("op_return", "user", f"send:{sid}:{rec['out']}")
            rec["ret_t"] = loop.time()

    async def main():
        xknx.task_registry.start()
        t0 = loop.time()
        tasks = []
        aux: list[Any] = []

        conn: list[Any] = []

        async def mgmt_connect():
            try:
                conn.append(await xknx.management.connect(IndividualAddress(PEER)))
                R.probes["management_connection_open"] += 1
            except Exception as exc:  # pylint: disable=broad-except
                R.probes["mgmt_connect_failed:" + type(exc).__name__] += 1

        async def mgmt_disconnect():
            try:
                if conn:
                    await xknx.management.disconnect(IndividualAddress(PEER))
            except Exception as exc:  # pylint: disable=broad-except
                R.probes["mgmt_disconnect_failed:" + type(exc).__name__] += 1

        def do(op):
            if op["op"] == "frame":
                stub.deliver(build_frame(op), f"{op['code']:02x}/{op['tpci']}/{op['dst']}")
            elif op["op"] == "mgmt_connect":
                aux.append(loop.create_task(mgmt_connect()))
            elif op["op"] == "mgmt_disconnect":
                aux.append(loop.create_task(mgmt_disconnect()))
            else:
                tasks.append(loop.create_task(do_send(op["id"])))

        tl = 0.0
        for op in plan["ops"]:
            loop.at(t0 + op["t"], (lambda o=op: do(o)), label="op")
            tl = max(tl, op["t"])
        await asyncio.sleep(tl + 8.0)
        for t in tasks:
            if not t.done():
                R.probes["send_never_returned"] += 1
                R.violate("C14.confirmation", "send-hangs", "send_telegram did not return within 8 s after the last operation")
                t.cancel()
        await asyncio.gather(*tasks, return_exceptions=True)
        for t in aux:
            t.cancel()
        await asyncio.gather(*aux, return_exceptions=True)
        xknx.task_registry.stop()
        await asyncio.sleep(0.01)

    R.execute(main())
    abstract = oracle(R, plan, stub, send_recs)
    R.check_escapes("C14.no-escape")
    return R.result(nontrivial=R.probes["nontrivial"] > 0, abstract=abstract)


def classify(op) -> tuple[str, str]:
    """(frame class, expected consumer in {'queue','mgmt','none'})."""
    code, tp, dk = op["code"], op["tpci"], op["dst"]
    if code == W.L_DATA_CON:
        return "con", "none"
    if code == W.L_DATA_REQ:
        return "req", "none"
    if code != W.L_DATA_IND:
        return "other-code", "none"
    if tp == "group":
        return "ind-group", "queue"
    if tp == "broadcast":
        return "ind-broadcast", "mgmt"
    return f"ind-{tp}-{dk}", "mgmt" if dk == "own" else "none"


def oracle(R: Run, plan, stub, send_recs):
    abstract: list[Any] = []
    frame_ops = [o for o in sorted(plan["ops"], key=lambda o: o["t"]) if o["op"] == "frame"]
    # ---- routing: reactions between one cemi_in and the next event of kind cemi_in/handoff/op_*
    ev = R.events
    idx = 0
    fi = 0
    cons: list[tuple[int, float]] = []   # handled L_Data.con frames (n, t)
    while idx < len(ev):
        n, t, it, kind, actor, detail = ev[idx]
        idx += 1
        if kind != "cemi_in":
            continue
        got_q = 0
        got_m = 0
        j = idx
        while j < len(ev) and ev[j][3] in ("queue_put", "mgmt_process", "escape"):
            if ev[j][3] == "queue_put":
                got_q += 1
            elif ev[j][3] == "mgmt_process":
                got_m += 1
            j += 1
        raw = bytes.fromhex(detail)
        if actor == "con":
            cons.append((n, t))
            cls, want = "con", "none"
        else:
            op = frame_ops[fi]
            fi += 1
            cls, want = classify(op)
            if cls == "con":
                cons.append((n, t))
            if cls != "ind-group":
                R.probes["nontrivial"] += 1
        abstract.append((cls, got_q, got_m))
        wq = 1 if want == "queue" else 0
        wm = 1 if want == "mgmt" else 0
        if got_q != wq:
            R.violate("C14.routing", f"{cls}:queue_puts={got_q}",
                      f"frame {raw.hex()} ({cls}) put {got_q} telegrams on the queue, expected {wq}")
        if got_m > wm:
            R.violate("C14.routing", f"{cls}:mgmt_calls={got_m}",
                      f"frame {raw.hex()} ({cls}) reached Management.process {got_m} times, expected {wm}")
        elif got_m < wm:
            R.violate("C14.routing", f"{cls}:not-delivered-to-management",
                      f"frame {raw.hex()} ({cls}) did not reach Management.process")
    # ---- queue content: group indications in arrival order
    # ---- confirmation clause
    by_pid = {}
    for h in stub.handoffs:
        c = W.parse_cemi_ldata(h["raw"])
        if c and c["group"] and c["dst"] == GA1 + 5 and len(c["tpdu"]) >= 4:
            by_pid[int.from_bytes(c["tpdu"][2:4], "big")] = h
    for sid, rec in sorted(send_recs.items()):
        h = by_pid.get(sid)
        b = (plan.get("sends") or {}).get(str(sid), {})
        abstract.append(("send", b.get("out"), b.get("con"), b.get("con_d"), rec["out"], bool(h and h["overlap"])))
        if h is None:
            R.violate("C14.confirmation", "no-handoff", f"send {sid} never reached the interface (outcome {rec['out']})")
            continue
        if b.get("out") == "comm_error":
            if rec["out"] != "comm_error" or rec["exc"] != "scripted send failure":
                R.violate("C14.confirmation", f"interface-error-became-{rec['out']}",
                          f"interface raised CommunicationError('scripted send failure'); caller saw {rec['out']} {rec['exc']}")
            continue
        after = [(n, t) for (n, t) in cons if n > h["n"]]
        if rec["out"] == "ok":
            if not any(h["n"] < n < rec["ret"] for (n, t) in cons):
                R.violate("C14.confirmation", "ok-without-later-confirmation",
                          f"send {sid} returned OK; hand-off n={h['n']}, return n={rec['ret']}, confirmations handled at n={[n for n, _ in cons]}")
        deadline = (h["ret_t"] or 0) + 3.0
        in_window = [(n, t) for (n, t) in after if t < deadline - 1e-7]
        at_edge = [(n, t) for (n, t) in after if abs(t - deadline) <= 1e-7]
        if h["overlap"]:
            R.probes["overlapping_sends"] += 1
            R.probes["nontrivial"] += 1
            if rec["out"] not in ("ok", "confirmation_error"):
                R.violate("C14.confirmation", f"outcome={rec['out']}", f"send {sid} ended with {rec['out']}: {rec['exc']}")
            continue
        if b.get("con") != "after" or b.get("con_d", 0) > 0.01:
            R.probes["nontrivial"] += 1
        if in_window:
            want_t = max(h["ret_t"], in_window[0][1])
            if rec["out"] != "ok":
                R.violate("C14.confirmation", f"confirmed-in-time-but-{rec['out']}",
                          f"send {sid}: confirmation at {in_window[0][1]:.6f}, deadline {deadline:.6f}, outcome {rec['out']}")
            elif abs(rec["ret_t"] - want_t) > 1e-6:
                R.violate("C14.confirmation", "ok-at-wrong-time",
                          f"send {sid}: returned at {rec['ret_t']:.6f}, reference {want_t:.6f}")
        elif at_edge:
            R.probes["confirmation_exactly_at_timeout(unjudged)"] += 1
        else:
            if rec["out"] != "confirmation_error":
                R.violate("C14.confirmation", f"unconfirmed-but-{rec['out']}",
                          f"send {sid}: no confirmation after hand-off until {deadline:.6f}; outcome {rec['out']}")
            elif abs(rec["ret_t"] - deadline) > 1e-6:
                R.violate("C14.confirmation", "confirmation-error-at-wrong-time",
                          f"send {sid}: ConfirmationError at {rec['ret_t']:.6f}, reference {deadline:.6f}")
            else:
                R.probes["confirmation_timeout_exact"] += 1
    return abstract
