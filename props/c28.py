"""C28 — IP Secure wrapping is correct, tamper-evident and standard-conformant.

Piggy-backed on the secure tunnel world (SecureTunnel vs SecureGateway) and the
secure routing world (SecureRouting vs peer router), both with the independent
crypto of sim.crypto (anchored on AN159 vectors).  Input space is sampled per
seed (inner frame lengths, keys, header fields); per sampled wrapper the
corruption fault is *enumerated*: every single-bit flip of the frame in transit,
then a wrong key and a wrong session id, then the untouched original.
"""

from __future__ import annotations

import asyncio
import random
import struct
from typing import Any

from sim import crypto as C
from sim import wire as W
from sim.secure_gateway import SecureGateway
from sim.world import Run

ID = "C28"
LEVEL = "fault_enumeration"
RUNS = {"quick": 600, "thorough": 240000}
BUDGET = {"quick": 100.0, "thorough": 3300.0}
CHUNK = 20
EXHAUSTIVE = ["every single-bit flip of each sampled SecureWrapper (and TimerNotify) in transit, plus wrong key and wrong session id"]
RULE = ("one run = one secure tunnel session or one secure routing session with seeded keys/passwords/key pairs, a seeded inner "
        "frame (cEMI of 1..254 octets) wrapped by the peer and delivered under every single-bit flip, wrong key, wrong session id "
        "and finally untouched; plus every frame xknx emits checked against the independent implementation; non-trivial = the "
        "enumeration ran to the end and the original was accepted; distinct = distinct (mode, inner length, flip positions)")
REAL = ["xknx.io.ip_secure.SecureSession/SecureGroup/SecureSequenceTimer/_IPSecureTransportLayer", "xknx.io.tunnel.SecureTunnel",
        "xknx.io.routing.SecureRouting", "xknx.secure.security_primitives", "xknx.knxip.SecureWrapper/Session*/TimerNotify codecs"]
STUB = ["secure gateway / peer router / in-transit corruption (harness, sim.crypto)", "network (SimNet)", "loop (SimLoop)"]
ASSUMPTIONS = ["frame bodies are those that occur in tunnel/routing sessions (cEMI up to 254 octets), not all 29 body classes",
               "the independent implementation is pinned to the AN159 example values (harness error on mismatch)",
               "flips inside the total-length field of a TCP frame are skipped (they break the stream framing, C22's domain)"]
MCAST = ("224.0.23.12", 3671)


# the points of low order on Curve25519 (RFC 7748 section 6.1: the shared secret is all zero), little endian
LOW_ORDER = [bytes(32), bytes((1,)) + bytes(31),
             bytes.fromhex("e0eb7a7c3b41b8ae1656e3faf19fc46ada098deb9c32b1fd866205165f49b800"),
             bytes.fromhex("5f9c95bca3508c24b1d0b1559c83ef5b04445cc4581c8e86d8224eddd09f1157"),
             bytes.fromhex("ec" + "ff" * 30 + "7f"), bytes.fromhex("ed" + "ff" * 30 + "7f"), bytes.fromhex("ee" + "ff" * 30 + "7f")]


def preflight():
    return C.anchor_selftest()


def gen(seed: int, tier: str) -> dict[str, Any]:
    rng = random.Random(seed)
    mode = rng.choice(["session", "session", "routing", "handshake"])
    plan = {"seed": seed, "tier": "S",
            "config": {"mode": mode, "inner_len": rng.choice([1, 2, 3, 14, 15, 16, 17, 31, 32, 33, 100, 254]) if rng.random() < 0.6
                       else rng.randint(1, 254),
                       "user_id": rng.randint(1, 127), "user_pw": "pw%d" % rng.randrange(10 ** 6),
                       "dev_pw": "dev%d" % rng.randrange(10 ** 6), "n_sends": rng.randint(1, 4),
                       "hs_flips": sorted(rng.sample(range(50 * 8), 24)), "batch": 1,
                       # SessionResponses whose public key is a point of low order (the shared secret would be all zero) under a
                       # MAC that is right for that key: a broken / rogue server must be refused like any other failed handshake
                       "hs_degenerate": sorted(rng.sample(range(7), rng.choice([0, 1, 2, 7]))),
                       # several handshakes on one SecureTunnel / SecureSession object (what a reconnect does)
                       "reuse": rng.random() < 0.5, "reconnects": rng.choice([0, 1, 2, 3]),
                       # installations where the user password and the device authentication password are the same string
                       "same_pw": rng.random() < 0.15,
                       # the gateway hands out the lowest free session id: a session closed before gives its id to the next
                       "lowest_free_sid": rng.random() < 0.5},
            "ops": []}
    if plan["config"]["same_pw"]:
        plan["config"]["dev_pw"] = plan["config"]["user_pw"]
    return plan


def _cemi(n: int, pid: int) -> bytes:
    data = pid.to_bytes(2, "big") + bytes((i * 7 + pid) & 0xFF for i in range(max(0, n - 2)))
    return W.cemi_ldata(W.L_DATA_IND, 0x1101, 0x0901, tpci_apci=W.gv_write(data[:min(250, max(2, n))]))


def run(plan: dict[str, Any]) -> dict[str, Any]:
    cfg = plan["config"]
    if cfg["mode"] == "routing":
        return run_routing(plan)
    return run_session(plan)


def run_session(plan):
    from xknx import XKNX
    from xknx.cemi import CEMIFrame
    from xknx.exceptions import CommunicationError
    from xknx.io.tunnel import SecureTunnel

    cfg = plan["config"]
    R = Run(plan, max_time=5000.0)
    loop, net = R.loop, R.net
    rng = random.Random(plan["seed"] ^ 0xC28)
    gw = SecureGateway(net, rng, user_id=cfg["user_id"], user_password=cfg["user_pw"], device_password=cfg["dev_pw"])
    gw.lowest_free_sid = bool(cfg.get("lowest_free_sid"))
    delivered: list[int] = []
    info: dict[str, Any] = {}

    def bus(cemi, ch):
        if cemi and cemi[0] == W.L_DATA_REQ:
            gw.send_request(ch.cid, bytes((W.L_DATA_CON,)) + cemi[1:])

    gw.bus = bus

    async def main():
        xknx = XKNX()

        def mk():
            return SecureTunnel(xknx, cemi_received_callback=on_cemi, gateway_ip=gw.ip, gateway_port=gw.port,
                                user_id=cfg["user_id"], user_password=cfg["user_pw"],
                                device_authentication_password=cfg["dev_pw"], auto_reconnect=False)

        def on_cemi(raw):
            c = W.parse_cemi_ldata(bytes(raw))
            if c and raw[0] == W.L_DATA_IND and len(c["tpdu"]) >= 4:
                delivered.append(int.from_bytes(c["tpdu"][2:4], "big"))

        if cfg["mode"] == "handshake":
            # every sampled single-bit flip of the SessionResponse must abort the handshake
            base_accept = gw.on_accept
            shared = mk() if cfg.get("reuse") else None
            for bit in cfg["hs_flips"]:
                t = shared or mk()
                orig = gw._secure_rx

                def rx(conn, fr, bit=bit, orig=orig):
                    if struct.unpack(">H", fr[2:4])[0] == W.SESSION_REQ:
                        cap = []
                        real = conn.send_to_client
                        conn.send_to_client = lambda d, lat=None: cap.append(d)
                        orig(conn, fr)
                        conn.send_to_client = real
                        for d in cap:
                            b = bytearray(d)
                            b[6 + bit // 8] ^= 1 << (bit % 8)
                            real(bytes(b))
                        return
                    orig(conn, fr)

                gw._secure_rx = rx
                try:
                    async with asyncio.timeout(20):
                        await t.connect()
                    field = "session-id" if bit < 16 else "server-public-key" if bit < 16 + 256 else "mac"
                    R.violate("C28.handshake-mac", f"tampered-session-response-accepted:{field}",
                              f"SessionResponse with bit {bit} of its body flipped: handshake completed")
                    await t.disconnect()
                except (CommunicationError, TimeoutError):
                    R.probes["tampered_session_response_rejected"] += 1
                except Exception as exc:  # pylint: disable=broad-except
                    # rejected - but not with the error a caller (or the reconnect loop) handles
                    import traceback
                    tb = traceback.extract_tb(exc.__traceback__)
                    inner = next((f for f in reversed(tb) if "/xknx/" in f.filename), tb[-1])
                    R.violate("C28.handshake-mac", f"tampered-session-response:{type(exc).__name__}@{inner.name}",
                              f"SessionResponse with bit {bit} of its body flipped: connect() raised {exc!r}")
                gw._secure_rx = orig
                R.extra_faults["session_response_bit_flip"] += 1
            for idx in cfg.get("hs_degenerate", []):
                t = shared or mk()
                orig = gw._secure_rx
                point = LOW_ORDER[idx]

                def rx2(conn, fr, point=point, orig=orig):
                    if struct.unpack(">H", fr[2:4])[0] == W.SESSION_REQ and len(fr) == 6 + 8 + 32:
                        cap = []
                        real = conn.send_to_client
                        conn.send_to_client = lambda d, lat=None: cap.append(d)
                        orig(conn, fr)
                        conn.send_to_client = real
                        for d in cap:
                            sid = struct.unpack(">H", d[6:8])[0]
                            mac = C.session_response_mac(gw.dev_key, sid, fr[14:46], point)
                            real(W.frame(W.SESSION_RES, d[6:8] + point + mac))
                        return
                    orig(conn, fr)

                gw._secure_rx = rx2
                try:
                    async with asyncio.timeout(20):
                        await t.connect()
                    R.violate("C28.handshake-mac", "low-order-server-key-accepted",
                              f"SessionResponse with the low-order public key {point.hex()}: handshake completed")
                    await t.disconnect()
                except (CommunicationError, TimeoutError):
                    R.probes["low_order_server_key_rejected"] += 1
                except Exception as exc:  # pylint: disable=broad-except
                    import traceback
                    tb = traceback.extract_tb(exc.__traceback__)
                    inner = next((f for f in reversed(tb) if "/xknx/" in f.filename), tb[-1])
                    R.violate("C28.handshake-mac", f"low-order-server-key:{type(exc).__name__}@{inner.name}",
                              f"SessionResponse with the low-order public key {point.hex()}: connect() raised {exc!r} - not the "
                              "error a caller (or the reconnect loop) handles")
                gw._secure_rx = orig
                R.extra_faults["session_response_low_order_key"] += 1
            # and the untouched handshake works (on a fresh object, or on the one that saw all the rejected ones), repeatedly
            t = shared or mk()
            for k in range(1 + cfg.get("reconnects", 0)):
                try:
                    await t.connect()
                    info["orig_ok"] = True
                    await t.disconnect()
                except CommunicationError:
                    R.violate("C28.round-trip", "genuine-handshake-failed" if k == 0 and shared is None else
                              "genuine-handshake-failed-on-a-used-session-object",
                              f"untampered handshake #{k + 1} did not complete (shared object: {shared is not None})")
                    break
            return

        tunnel = mk()
        try:
            await tunnel.connect()
        except CommunicationError as exc:
            R.violate("C28.round-trip", "genuine-handshake-failed", repr(exc))
            return
        for i in range(cfg["n_sends"]):
            n = min(250, rng.choice([1, 2, 14, 15, 200, cfg["inner_len"]]))
            raw = W.cemi_ldata(W.L_DATA_REQ, 0, W.ga(1, 1, 1), tpci_apci=W.gv_write(bytes((i,)) * n))
            await tunnel.send_cemi(CEMIFrame.from_knx(raw))
        await asyncio.sleep(0.2)   # let the gateway's confirmations (which consume counter values) go out first
        s = gw.current_session()
        inner = W.tunnelling_request(gw.last_cid or 1, 0, _cemi(cfg["inner_len"], 4242))
        seq = s.tx_seq
        good = gw.make_wrapper(s, inner, seq=seq)
        nbits = len(good) * 8
        sent = 0
        for bit in range(nbits):
            if bit // 8 in (4, 5):
                continue
            b = bytearray(good)
            b[bit // 8] ^= 1 << (bit % 8)
            s.conn.send_to_client(bytes(b), lat=0.0005)
            sent += 1
            if sent % 64 == 0:
                await asyncio.sleep(0.01)
        s.conn.send_to_client(gw.make_wrapper(s, inner, seq=seq, key=rng.randbytes(16)), lat=0.0005)
        s.conn.send_to_client(gw.make_wrapper(s, inner, seq=seq, sid=(s.sid % 65000) + 1), lat=0.0005)
        R.extra_faults["wrapper_bit_flip"] += sent
        R.extra_faults["wrong_key"] += 1
        R.extra_faults["wrong_session_id"] += 1
        await asyncio.sleep(0.2)
        info["before_original"] = list(delivered)
        s.tx_seq = seq + 1
        s.conn.send_to_client(good, lat=0.0005)
        await asyncio.sleep(0.2)
        info["after_original"] = list(delivered)
        await tunnel.disconnect()
        await asyncio.sleep(0.1)
        # reconnects of the same object: every handshake has fresh keys and must verify on both sides, every session wraps
        for k in range(cfg.get("reconnects", 0)):
            try:
                await tunnel.connect()
                raw = W.cemi_ldata(W.L_DATA_REQ, 0, W.ga(1, 1, 1), tpci_apci=W.gv_write(bytes((0x70 + k,)) * 3))
                await tunnel.send_cemi(CEMIFrame.from_knx(raw))
                await tunnel.disconnect()
                R.probes["handshakes_on_a_used_session_object"] += 1
            except CommunicationError as exc:
                R.violate("C28.round-trip", "genuine-handshake-failed-on-a-used-session-object",
                          f"reconnect #{k + 1} of the same SecureTunnel: {exc!r}")
                break
            await asyncio.sleep(0.1)

    R.execute(main())
    if cfg["mode"] == "session" and "before_original" in info:
        if info["before_original"]:
            R.violate("C28.tamper-evident", "tampered-wrapper-delivered",
                      f"{len(info['before_original'])} tampered variants of the wrapper were unwrapped and passed on")
        if info["after_original"].count(4242) != 1:
            R.violate("C28.round-trip", f"original-delivered-{info['after_original'].count(4242)}x",
                      "after all rejected variants the untouched wrapper must be accepted exactly once (rejections must not advance the counter)")
    for (clause, sig, detail) in gw.violations:
        R.violate(clause if clause.startswith("C28") else "C28." + clause.split(".", 1)[1], sig, detail)
    R.check_escapes("C28.no-escape")
    R.probes["client_wrappers_verified"] += gw.wrappers_checked
    R.probes["auth_macs_verified"] += gw.auth_mac_checked
    ok = (cfg["mode"] == "session" and info.get("after_original", []).count(4242) == 1) or info.get("orig_ok", False)
    return R.result(nontrivial=ok, abstract=[cfg["mode"], cfg["inner_len"], cfg["hs_flips"] if cfg["mode"] == "handshake" else 0])


def run_routing(plan):
    from xknx import XKNX
    from xknx.cemi import CEMIFrame
    from xknx.io.routing import SecureRouting
    from xknx.telegram import IndividualAddress

    cfg = plan["config"]
    R = Run(plan, max_time=5000.0)
    loop, net = R.loop, R.net
    rng = random.Random(plan["seed"] ^ 0xC28)
    key = rng.randbytes(16)
    delivered: list[int] = []
    info: dict[str, Any] = {}

    def on_cemi(raw):
        c = W.parse_cemi_ldata(bytes(raw))
        if c and raw[0] == W.L_DATA_IND and len(c["tpdu"]) >= 4:
            delivered.append(int.from_bytes(c["tpdu"][2:4], "big"))

    async def main():
        xknx = XKNX()
        routing = SecureRouting(xknx, IndividualAddress("1.1.8"), on_cemi, net.local_ip, backbone_key=key, latency_ms=3000)
        peer = net.mcast_join("10.0.0.7", MCAST[0], MCAST[1], lambda d, s, k: None)
        await routing.connect()      # nobody answers: becomes time keeper
        timer = routing.transport.secure_timer
        for i in range(cfg["n_sends"]):
            n = min(250, rng.choice([1, 2, 14, 15, 200, cfg["inner_len"]]))
            raw = W.cemi_ldata(W.L_DATA_REQ, 0, W.ga(1, 1, 1), tpci_apci=W.gv_write(bytes((i,)) * n))
            await routing.send_cemi(CEMIFrame.from_knx(raw))
        inner = W.routing_indication(_cemi(cfg["inner_len"], 4343))
        value = timer.current_timer_value() + 50
        serial, tag = b"\x00\xfa\x11\x22\x33\x44", rng.randbytes(2)
        good = C.wrap(key, 0, value.to_bytes(6, "big"), serial, tag, inner)
        sent = 0
        for bit in range(len(good) * 8):
            b = bytearray(good)
            b[bit // 8] ^= 1 << (bit % 8)
            # a flipped timer value that is still authenticated cannot exist: every variant must be rejected
            peer.sendto(bytes(b), MCAST, lat=0.0005, nofault=True)
            sent += 1
            if sent % 64 == 0:
                await asyncio.sleep(0.005)
        peer.sendto(C.wrap(rng.randbytes(16), 0, value.to_bytes(6, "big"), serial, tag, inner), MCAST, lat=0.0005, nofault=True)
        peer.sendto(C.wrap(key, 7, value.to_bytes(6, "big"), serial, tag, inner), MCAST, lat=0.0005, nofault=True)
        # timer notify: every single-bit flip must leave the timer alone
        tn = C.timer_notify(key, timer.current_timer_value() + 10 ** 7, serial, tag)
        before = timer.current_timer_value()
        for bit in range(6 * 8, len(tn) * 8):
            b = bytearray(tn)
            b[bit // 8] ^= 1 << (bit % 8)
            if C.timer_notify_verify(key, bytes(b)) is not None:
                continue
            peer.sendto(bytes(b), MCAST, lat=0.0005, nofault=True)
            sent += 1
        await asyncio.sleep(0.1)
        after = timer.current_timer_value()
        if after - before > 2000:
            R.violate("C28.tamper-evident", "tampered-timer-notify-moved-timer", f"timer moved from {before} to {after}")
        R.extra_faults["wrapper_bit_flip"] += sent
        R.extra_faults["wrong_key"] += 1
        R.extra_faults["wrong_session_id"] += 1
        info["before_original"] = list(delivered)
        peer.sendto(good, MCAST, lat=0.0005, nofault=True)
        await asyncio.sleep(0.1)
        info["after_original"] = list(delivered)
        await routing.disconnect()
        await asyncio.sleep(0.05)

    R.execute(main())
    if "before_original" in info:
        if info["before_original"]:
            R.violate("C28.tamper-evident", "tampered-wrapper-delivered",
                      f"{len(info['before_original'])} tampered variants were unwrapped and passed on")
        if info["after_original"].count(4343) != 1:
            R.violate("C28.round-trip", f"original-delivered-{info['after_original'].count(4343)}x",
                      "the untouched wrapper must be accepted exactly once")
    # everything xknx emitted verifies under the independent implementation
    client_ip = R.net.local_ip
    for (n, t, it, kind, actor, detail) in R.events:
        if kind == "udp_out" and str(actor).startswith(client_ip + ":"):
            raw = bytes.fromhex(detail)
            sp = W.split(raw)
            if not sp:
                continue
            if sp[0] == W.SECURE_WRAPPER:
                u = C.unwrap(key, raw)
                if u is None:
                    R.violate("C28.wrapper-conformance", "outgoing-wrapper-does-not-verify", raw.hex())
                elif C.wrap(key, u["session_id"], raw[8:14], u["serial"], u["tag"], u["plain"]) != raw:
                    R.violate("C28.wrapper-conformance", "re-wrap-differs", raw.hex())
                else:
                    R.probes["client_wrappers_verified"] += 1
            elif sp[0] == W.TIMER_NOTIFY:
                if C.timer_notify_verify(key, raw) is None:
                    R.violate("C28.handshake-mac", "outgoing-timer-notify-mac-differs", raw.hex())
                else:
                    R.probes["timer_notifies_verified"] += 1
    R.check_escapes("C28.no-escape")
    ok = info.get("after_original", []).count(4343) == 1
    return R.result(nontrivial=ok, abstract=["routing", cfg["inner_len"]])
