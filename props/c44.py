"""C44 — address programming never creates an address conflict.

W-MGMT: the real NM_* / DM_* procedures (Management, P2PConnection, CEMIHandler)
over the stub interface against a simulated KNX bus.  *All* bus populations of
0..3 devices over addresses {target, a, b} x programming flag x behaviour
{answers, refuses, silent} are enumerated (6175 populations), each with seeded
response order and latency inside the specified timeouts (the bus itself is
reliable - with lost responses no procedure can know the population).
"""

from __future__ import annotations

import asyncio
import itertools
import random
from typing import Any

from sim import wire as W
from sim.knxbus import SimBus
from sim.runworld import make_xknx
from sim.world import Run

ID = "C44"
LEVEL = "fault_enumeration"
EXHAUSTIVE = ["all populations of 0..3 devices over {target,a,b} x programming mode x {answers,refuses,silent} for "
              "NM_IndividualAddress_Write (6175 populations)"]
ADDRS = {"T": W.ia(1, 1, 10), "a": W.ia(1, 1, 20), "b": W.ia(1, 1, 30)}
OWN = W.ia(1, 1, 250)
DEVSTATES = [(a, p, b) for a in ("T", "a", "b") for p in (False, True) for b in ("answers", "refuses", "silent")]


def _populations():
    out = [()]
    for n in (1, 2, 3):
        out.extend(itertools.product(DEVSTATES, repeat=n))
    return out


POPS = _populations()
EXTRA = {"quick": 20000, "thorough": 2400000}


class _Runs(dict):
    def __getitem__(self, tier):
        return len(POPS) * (1 if tier == "quick" else 8) + EXTRA[tier]


RUNS = _Runs()
BUDGET = {"quick": 100.0, "thorough": 3300.0}
RULE = ("indices below 6175 (x8 seeds in thorough) = the i-th bus population under NM_IndividualAddress_Write; above = seeded "
        "populations under the other procedures (address read, serial-number read/write incl. foreign-serial answers, "
        "authorize / authorize2 with seeded access levels, connect, restart); non-trivial = population has >=1 device; "
        "distinct = distinct (procedure, population, outcome)")
REAL = ["xknx.management.procedures.network.* and device.*", "xknx.management.Management / P2PConnection / BroadcastContext",
        "xknx.cemi.CEMIHandler", "xknx.telegram.apci / tpci codecs", "xknx.core.TaskRegistry.background"]
STUB = ["KNX bus with SimKNXDevice population (sim.knxbus, independent transport layer)", "KNXIPInterface (StubInterface)",
        "wall clock seam (management rate limit)", "loop (SimLoop)",
        "receive batching (some runs): a device's answer is handed in within the same receive callback as the L_Data.con of the "
        "frame it answers; some devices ignore data frames while no connection is open instead of answering T_Disconnect"]
ASSUMPTIONS = ["the bus is reliable and devices answer inside the specified timeouts",
               "silent devices are undetectable for any procedure and excluded from the conflict clause",
               "a 'refusing' device answers T_Connect with T_Disconnect and answers broadcasts"]
CHUNK = 400


def gen_index(i: int, seed: int, tier: str) -> dict[str, Any]:
    rng = random.Random(seed)
    n_enum = len(POPS) * (1 if tier == "quick" else 8)
    if i < n_enum:
        pop = POPS[i % len(POPS)]
        proc = "addr_write"
    else:
        pop = tuple(rng.choice(DEVSTATES) for _ in range(rng.choice([0, 1, 2, 3])))
        proc = rng.choice(["addr_read", "serial_read", "serial_write", "authorize", "authorize2", "connect", "restart", "addr_check"])
    devs = []
    for k, (a, p, b) in enumerate(pop):
        devs.append({"addr": a, "prog": p, "beh": b, "serial": k + 1,
                     "lat": rng.choice([0.005, 0.02, 0.3, 1.5, 2.5]), "free_level": rng.choice([0, 3, 15]),
                     "key_level": rng.choice([0, 1, 2, 15]),
                     # the T_ACK of the first transmission of a request may get lost (its answer still arrives): the request is
                     # repeated and acknowledged then
                     "ack": rng.choice(["normal", "normal", "normal", "lost_once"]),
                     # a device without an open connection ignores data frames instead of answering each with T_Disconnect
                     "closed_silent": rng.random() < 0.4})
    return {"seed": seed, "tier": "S", "config": {"proc": proc, "batch": 1, "foreign_serial_answer": rng.random() < 0.5,
                                                   "target_serial": rng.choice([1, 2, 3, 9]),
                                                   # delay of the L_Data.con of every frame sent: a device's answer may
                                                   # overtake the confirmation of the request it answers (UDP tunnel)
                                                   "con_d": rng.choice([0.003, 0.003, 0.003, 0.06, 0.4, 1.2]),
                                                   # an earlier, unrelated procedure on the same XKNX object: does one of the
                                                   # bus addresses answer? (connects to it; a device may refuse or stay silent)
                                                   "prelude": rng.choice(["a", "b", "T"]) if rng.random() < 0.25 else None,
                                                   # the devices' answers reach xknx in the same receive callback as the
                                                   # L_Data.con of the frame they answer (frames coalesced in one TCP read)
                                                   "glue": rng.choice([None, None, None, "t_connect", "all"]),
                                                   # another task of the application holds a management connection to one
                                                   # of the other bus addresses for the whole run (that device still answers
                                                   # broadcasts - its answers belong to the procedure, not to the connection)
                                                   "held": rng.choice(["a", "b"]) if rng.random() < 0.2 else None,
                                                   # another task of the application looks for a device by a serial number
                                                   # nobody has, again and again, while the procedure runs (its own broadcast
                                                   # context on the same XKNX object)
                                                   "concurrent_bc": rng.random() < 0.2},
            "devices": devs, "ops": []}


def gen(seed, tier):
    return gen_index(10 ** 9, seed, tier)


def run(plan: dict[str, Any]) -> dict[str, Any]:
    from xknx.exceptions import ManagementConnectionError
    from xknx.management import procedures as P
    from xknx.management.procedures import device as PD, network as PN
    from xknx.telegram import IndividualAddress

    cfg = plan["config"]
    proc = cfg["proc"]
    R = Run(plan, max_time=5000.0)
    loop = R.loop
    xknx, stub, q = make_xknx(R, default={"lat": 0.002, "out": "ok", "con": "after", "con_d": cfg.get("con_d", 0.003)})
    xknx.current_address = IndividualAddress(OWN)
    bus = SimBus(R, stub)
    devs = []
    for d in plan["devices"]:
        dv = bus.add(ia=ADDRS[d["addr"]], serial=int(d["serial"]).to_bytes(6, "big"),
                     prog=d["prog"], behaviour=d["beh"], free_level=d["free_level"], levels={0x11223344: d["key_level"]})
        dv._lat = d["lat"]
        if d.get("ack", "normal") != "normal":
            dv.script = dict(dv.script, ack=d["ack"])
            dv.base_script = dict(dv.script)
            R.extra_faults["device_first_ack_lost"] += 1
        if d.get("closed_silent"):
            dv.script = dict(dv.script, closed_silent=True)
            dv.base_script = dict(dv.script)
        devs.append(dv)
    bus.lat_of = lambda dev: getattr(dev, "_lat", 0.02)
    if cfg.get("glue"):
        def glue(c, mode=cfg["glue"]):
            if mode == "all" or (c["tpdu"] and c["tpdu"][0] == 0x80):
                R.extra_faults["answer_coalesced_with_confirmation"] += 1
                return True
            return False
        bus.glue = glue
    T = ADDRS["T"]
    before = [(d.ia, d.prog, d.behaviour) for d in devs]
    out: dict[str, Any] = {"result": None, "exc": None}

    async def main():
        xknx.task_registry.start()
        if cfg.get("prelude"):
            try:
                async with asyncio.timeout(60):
                    await PN.nm_individual_address_check(xknx, IndividualAddress(ADDRS[cfg["prelude"]]))
            except (ManagementConnectionError, TimeoutError):
                pass
            R.extra_faults["earlier_procedure_on_same_xknx"] += 1
            await asyncio.sleep(1.0)
        if cfg.get("held"):
            try:
                async with asyncio.timeout(60):
                    await xknx.management.connect(IndividualAddress(ADDRS[cfg["held"]]))
                R.extra_faults["connection_to_another_device_held_meanwhile"] += 1
            except (ManagementConnectionError, TimeoutError):
                pass
            await asyncio.sleep(0.5)
        bc_task = None
        if cfg.get("concurrent_bc"):
            async def look_for_absent_serial():
                while True:
                    try:
                        await PN.nm_individual_address_serial_number_read(xknx, (0xABCDEF).to_bytes(6, "big"))
                    except ManagementConnectionError:
                        pass
                    await asyncio.sleep(0.05)
            bc_task = loop.create_task(look_for_absent_serial())
            R.extra_faults["second_broadcast_context_open_meanwhile"] += 1
            await asyncio.sleep(0.3)
        try:
            async with asyncio.timeout(120):
                if proc == "addr_write":
                    out["result"] = await PN.nm_individual_address_write(xknx, IndividualAddress(T))
                elif proc == "addr_read":
                    out["result"] = [a.raw for a in await PN.nm_individual_address_read(xknx)]
                elif proc == "addr_check":
                    out["result"] = await PN.nm_individual_address_check(xknx, IndividualAddress(T))
                elif proc == "serial_read":
                    serial = cfg["target_serial"].to_bytes(6, "big")
                    if cfg["foreign_serial_answer"]:
                        # an unrelated device answers a serial-number read with *another* serial first
                        bus.inject(W.ia(9, 9, 9), 0, bytes((0x03, 0xDD)) + (77).to_bytes(6, "big") + bytes(4), group=True, lat=0.05)
                    r = await PN.nm_individual_address_serial_number_read(xknx, serial)
                    out["result"] = r.raw if r is not None else None
                elif proc == "serial_write":
                    serial = cfg["target_serial"].to_bytes(6, "big")
                    if cfg["foreign_serial_answer"]:
                        bus.inject(W.ia(9, 9, 9), 0, bytes((0x03, 0xDD)) + (77).to_bytes(6, "big") + bytes(4), group=True, lat=0.08)
                    out["result"] = await PN.nm_individual_address_serial_number_write(xknx, serial, IndividualAddress(T))
                else:
                    async with xknx.management.connection(IndividualAddress(T)) as conn:
                        if proc == "authorize":
                            out["result"] = await PD.dmp_authorize_r_co(conn, 0x11223344)
                        elif proc == "authorize2":
                            out["result"] = await PD.dmp_authorize2_r_co(conn, 0x11223344)
                        elif proc == "connect":
                            out["result"] = await PD.dmp_connect_r_co(conn)
                        elif proc == "restart":
                            await PD.dm_restart_r_co(conn)
        except ManagementConnectionError as exc:
            out["exc"] = type(exc).__name__
        except TimeoutError:
            out["exc"] = "HANG"
        if bc_task is not None:
            bc_task.cancel()
            await asyncio.gather(bc_task, return_exceptions=True)
        await asyncio.sleep(8.0)
        xknx.task_registry.stop()

    R.execute(main())
    # ------------------------------------------------------------------ oracle at the devices
    if out["exc"] == "HANG":
        R.violate("C44.terminates", f"{proc}-hangs", "procedure did not finish within 120 s of bus time")
    detectable = [i for i, (ia, prog, beh) in enumerate(before) if beh != "silent"]
    prog_answering = [i for i in detectable if before[i][1]]
    at_target = [i for i in detectable if before[i][0] == T]
    writes = [c for c in bus.from_xknx if c["group"] and c["dst"] == 0 and len(c["tpdu"]) >= 4
              and ((c["tpdu"][0] << 8 | c["tpdu"][1]) & 0x03FF) == 0x00C0]
    serial_writes = [c for c in bus.from_xknx if c["group"] and c["dst"] == 0 and len(c["tpdu"]) >= 2
                     and ((c["tpdu"][0] << 8 | c["tpdu"][1]) & 0x03FF) == 0x03DE]
    if proc == "addr_write":
        if writes:
            if len(prog_answering) != 1:
                R.violate("C44.write-only-if-single-programming-device", f"write-with-{len(prog_answering)}-devices-in-programming-mode",
                          f"population {before}: IndividualAddressWrite broadcast although {len(prog_answering)} answering devices are in programming mode")
            holders = [i for i in at_target if i not in prog_answering or len(prog_answering) != 1]
            if at_target and not (len(prog_answering) == 1 and at_target == prog_answering):
                R.violate("C44.write-only-if-address-free", "write-although-address-occupied",
                          f"population {before}: target address already held by device(s) {at_target}")
            if len(writes) > 1:
                R.violate("C44.write-only-if-single-programming-device", "address-written-twice", f"{len(writes)} writes")
        else:
            # no write: fine unless the population was the textbook case (one programming device, address free)
            if len(prog_answering) == 1 and not at_target and not any(b[2] == "silent" and b[0] == T for b in before):
                R.violate("C44.writes-when-safe", "no-write-in-the-safe-case",
                          f"population {before}: exactly one device in programming mode and the address is free, but no write (exc {out['exc']})")
        # restart reaches only devices at the target address
        for i, d in enumerate(devs):
            if d.restarts and d.ia != T:
                R.violate("C44.restart-only-target", "restart-at-other-address", f"device {i} at {d.ia:04x} was restarted")
        # no new collision among detectable devices
        after = [devs[i].ia for i in detectable]
        dup_after = {a for a in after if after.count(a) > 1}
        before_addrs = [before[i][0] for i in detectable]
        dup_before = {a for a in before_addrs if before_addrs.count(a) > 1}
        if dup_after - dup_before:
            R.violate("C44.no-new-conflict", "new-address-collision",
                      f"population {before} -> addresses {[f'{a:04x}' for a in after]} (procedure outcome {out['exc'] or 'ok'})")
    else:
        if writes:
            R.violate("C44.write-only-if-single-programming-device", f"{proc}-broadcast-address-write", "unexpected IndividualAddressWrite")
    if proc == "addr_read" and out["exc"] is None:
        want = sorted(before[i][0] for i in prog_answering)
        if sorted(out["result"]) != want:
            R.violate("C44.address-read", "programming-mode-list-differs", f"returned {out['result']}, bus has {want}")
    if proc in ("serial_read", "serial_write"):
        serial = cfg["target_serial"].to_bytes(6, "big")
        owners = [i for i in detectable if devs[i].serial == serial]
        if proc == "serial_read" and out["exc"] is None:
            if owners:
                if out["result"] != before[owners[0]][0] and out["result"] not in [before[i][0] for i in owners]:
                    R.violate("C44.serial-number", "address-of-another-serial-returned",
                              f"asked for serial {serial.hex()}, got {out['result']}, owners at {[before[i][0] for i in owners]}")
            elif out["result"] is not None:
                R.violate("C44.serial-number", "address-returned-for-absent-serial",
                          f"no device has serial {serial.hex()} but {out['result']:04x} was returned")
        if proc == "serial_write":
            for i, d in enumerate(devs):
                if d.writes and d.serial != serial:
                    R.violate("C44.serial-number", "address-of-device-with-other-serial-changed", f"device {i}")
            if out["exc"] is None and not owners:
                R.violate("C44.serial-number", "serial-write-succeeded-without-device", f"serial {serial.hex()}")
    if proc in ("authorize", "authorize2") and out["exc"] is None and at_target:
        d = plan["devices"][at_target[0]]
        if before[at_target[0]][2] == "answers" and len(at_target) == 1:
            want = d["key_level"] if proc == "authorize" else min(d["free_level"], d["key_level"])
            if out["result"] != want:
                R.violate("C44.authorize", f"{proc}-level", f"returned {out['result']}, device grants free={d['free_level']} key={d['key_level']}")
    if proc == "restart":
        for i, d in enumerate(devs):
            if d.restarts and d.ia != T and before[i][0] != T:
                R.violate("C44.restart-only-target", "restart-at-other-address", f"device {i}")
    R.check_escapes("C44.no-escape")
    abstract = [proc, tuple(before), out["exc"] or "ok", len(writes)]
    R.extra_faults["refusing_devices"] += sum(1 for b in before if b[2] == "refuses")
    R.extra_faults["silent_devices"] += sum(1 for b in before if b[2] == "silent")
    return R.result(nontrivial=len(before) > 0, abstract=abstract)
