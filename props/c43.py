"""C43 — point-to-point management connections follow the transport-layer protocol.

W-MGMT: real Management / P2PConnection / CEMIHandler over the stub interface
against SimKNXDevice models that acknowledge with any number, duplicate ACKs,
NAK, send data duplicated / out of order / before the ACK, disconnect at any
step, stay silent; unsolicited frames from peers without a connection; lost
confirmations.  Oracle: DESIGN Appendix B.5.
"""

from __future__ import annotations

import asyncio
import random
from typing import Any

from sim import wire as W
from sim.knxbus import SimBus
from sim.runworld import make_xknx
from sim.world import Run

ID = "C43"
LEVEL = "exploration"
RUNS = {"quick": 24000, "thorough": 2400000}
BUDGET = {"quick": 100.0, "thorough": 3300.0}
RULE = ("one run = 1-2 P2P connections issuing 1-20 requests against devices with seeded transport-layer misbehaviour and "
        "latencies, plus injected frames (ACK/NAK/data/disconnect from connected and unconnected peers) at seeded offsets; "
        "non-trivial = at least one misbehaviour or injected frame; distinct = distinct (behaviour vector, request outcomes)")
REAL = ["xknx.management.Management.process / connect / disconnect", "xknx.management.P2PConnection (request, send_data, _receive, "
        "process)", "xknx.cemi.CEMIHandler", "xknx.core.TaskRegistry.background", "xknx.telegram.tpci/apci codecs"]
STUB = ["KNX devices (sim.knxbus.SimKNXDevice, independent transport layer)", "KNXIPInterface (StubInterface, confirmations may be "
        "lost)", "wall clock seam (rate limit)", "loop (SimLoop)",
        "receive batching (some runs): a device's T_ACK / answer is handed in within the same receive callback as the L_Data.con of "
        "the frame it answers"]
ASSUMPTIONS = ["bound for 'fails within bounded time': 2 x (3 s confirmation + 3 s ACK) + 6 s response + rate-limit pause + 2 s",
               "a T_ACK sent by xknx is attributed to the numbered data frame delivered to it immediately before"]
OWN = W.ia(1, 1, 250)
DEV = [W.ia(1, 2, 1), W.ia(1, 2, 2)]
STRANGER = W.ia(7, 7, 7)
BOUND = 2 * (3 + 3) + 6 + 1 + 2


def gen(seed: int, tier: str) -> dict[str, Any]:
    rng = random.Random(seed)
    ndev = rng.choice([1, 1, 2])
    devs = []
    clean = rng.random() < 0.15
    for i in range(ndev):
        sc: dict[str, Any] = {}
        if not clean:
            sc["ack"] = rng.choices(["normal", "none", "wrong", "dup"], [5, 1, 1, 2])[0]
            sc["respond"] = rng.choices(["normal", "silent", "dup", "wrong_seq", "before_ack", "wrong_type", "disconnect"],
                                        [6, 1, 2, 1, 2, 1, 1])[0]
            sc["ack_lat"] = rng.choice([None, 0.001, 0.5, 2.999, 3.001])
            sc["resp_lat"] = rng.choice([None, 0.002, 1.0, 5.999, 6.001])
            sc["dup_gap"] = rng.choice([0.0, 0.0, 0.001, 0.5, 0.5, 1.5])
            if rng.random() < 0.3:
                # behaviour changing from request to request: e.g. an answer that overtakes a wrongly numbered T_ACK, and
                # the device repeating that answer in front of its next one
                sc["per_request"] = [rng.choice([None, None, {"ack": "wrong", "respond": "before_ack"}, {"ack": "none", "respond": "before_ack"},
                                                 {"respond": "prev+normal"}, {"respond": "prev+normal", "ack": "normal"},
                                                 {"ack": "dup"}, {"respond": "wrong_type"},
                                                 # an answer that comes after its request has given up
                                                 {"resp_lat": 6.5, "ack_lat": None}, {"resp_lat": 9.0, "ack_lat": None}]) for _ in range(6)]
        devs.append({"script": sc, "lat": rng.choice([0.005, 0.02, 0.2])})
    n_req = rng.choice([1, 2, 4, 18]) if rng.random() < 0.9 else 36
    ops = []
    t = 0.05
    for i in range(n_req):
        ops.append({"op": "request", "d": rng.randrange(ndev), "kind": rng.choice(["dd0", "dd0", "auth"])})
    inj = []
    if not clean:
        for _ in range(rng.choice([0, 1, 3, 6])):
            inj.append({"t": round(rng.uniform(0.0, 8.0), 6), "src": rng.choice(["dev0", "dev0", "stranger"]),
                        "k": rng.choice(["ack", "nak", "data", "data_prev", "disconnect", "connect", "data_far", "individual"]),
                        "n": rng.randrange(16)})
    return {"seed": seed, "tier": "S", "config": {"batch": 1, "con_lost": (not clean) and rng.random() < 0.15,
                                                   "rate_limit": rng.choice([0, 20]),
                                                   # delay of the L_Data.con of every frame sent: the device's T_ACK / answer
                                                   # may overtake the confirmation of the request (UDP tunnel reordering)
                                                   "con_d": 0.003 if clean else rng.choice([0.003, 0.003, 0.003, 0.03, 0.3]),
                                                   # the device's T_ACK / answer reaches xknx in the same receive callback as
                                                   # the L_Data.con of the frame it answers (coalesced in one TCP read)
                                                   "glue": None if clean else rng.choice([None, None, None, "t_connect", "all"])},
            "devices": devs, "ops": ops, "inject": inj}


SHRINK_LISTS = ("ops", "inject")


def run(plan: dict[str, Any]) -> dict[str, Any]:
    from xknx.exceptions import ManagementConnectionError, XKNXException
    from xknx.telegram import IndividualAddress, apci

    cfg = plan["config"]
    R = Run(plan, max_time=5000.0)
    loop = R.loop
    xknx, stub, q = make_xknx(R, default={"lat": 0.002, "out": "ok", "con": "after", "con_d": cfg.get("con_d", 0.003)})
    xknx.current_address = IndividualAddress(OWN)
    from xknx.management import Management
    seen_in: list[tuple[int, Any]] = []       # (event number, telegram object) of everything handed to Management.process

    class RecMgmt(Management):
        __slots__ = ()

        def process(self, telegram):
            seen_in.append((R.record("mgmt_in", telegram.source_address.raw, type(telegram.tpci).__name__), telegram))
            return super().process(telegram)

    xknx.management = RecMgmt(xknx)
    bus = SimBus(R, stub)
    devs = []
    for i, d in enumerate(plan["devices"]):
        dv = bus.add(ia=DEV[i], script=dict(d["script"]), levels={0x11223344: 2})
        dv._lat = d["lat"]
        devs.append(dv)
    bus.lat_of = lambda dev: getattr(dev, "_lat", 0.02)
    if cfg.get("glue"):
        def glue(c, mode=cfg["glue"]):
            if mode == "all" or (c["tpdu"] and c["tpdu"][0] == 0x80):
                R.extra_faults["answer_coalesced_with_confirmation"] += 1
                return True
            return False
        bus.glue = glue
    if cfg["con_lost"]:
        crng = random.Random(plan["seed"] ^ 0x43)
        stub.pick = lambda raw, i: {"lat": 0.002, "out": "ok", "con": "never"} if crng.random() < 0.2 else None
    results: list[dict[str, Any]] = []
    info: dict[str, Any] = {}

    async def worker(di: int, reqs: list[dict[str, Any]]):
        try:
            async with asyncio.timeout(30):
                conn = await xknx.management.connect(IndividualAddress(DEV[di]), rate_limit=cfg["rate_limit"])
        except (ManagementConnectionError, TimeoutError) as exc:
            results.append({"d": di, "kind": "connect", "out": type(exc).__name__})
            return
        for rq in reqs:
            payload = apci.DeviceDescriptorRead(descriptor=0) if rq["kind"] == "dd0" else apci.AuthorizeRequest(key=0x11223344)
            rec = {"d": di, "kind": rq["kind"], "t_call": loop.time(), "n_call": R.record("op_call", f"dev{di}", rq["kind"])}
            try:
                async with asyncio.timeout(BOUND + 30):
                    resp = await conn.request(payload)
                rec["out"] = "ok"
                rec["resp_type"] = type(resp.payload).__name__
                rec["resp_seq"] = resp.tpci.sequence_number
                rec["resp_src"] = resp.source_address.raw
                rec["resp"] = resp
            except ManagementConnectionError as exc:
                rec["out"] = type(exc).__name__
            except TimeoutError:
                rec["out"] = "HANG"
            except XKNXException as exc:
                rec["out"] = "other:" + type(exc).__name__
            except Exception as exc:  # pylint: disable=broad-except
                rec["out"] = "other:" + type(exc).__name__
            rec["t_ret"] = loop.time()
            rec["n_ret"] = R.record("op_return", f"dev{di}", rec["out"])
            results.append(rec)
            if rec["out"] in ("ManagementConnectionRefused", "HANG"):
                break
        try:
            async with asyncio.timeout(20):
                await xknx.management.disconnect(IndividualAddress(DEV[di]))
        except (ManagementConnectionError, TimeoutError):
            pass

    async def main():
        xknx.task_registry.start()
        t0 = loop.time()
        for inj in plan["inject"]:
            src = DEV[0] if inj["src"] == "dev0" else STRANGER
            n = inj["n"]
            tpdu = {"ack": bytes((0xC2 | n << 2,)), "nak": bytes((0xC3 | n << 2,)),
                    "data": bytes((0x43 | n << 2, 0x40, 0x07, 0xB0)), "data_prev": bytes((0x43 | n << 2, 0x40, 0x07, 0xB0)),
                    "data_far": bytes((0x43 | n << 2, 0xD2, 0x01)),
                    "disconnect": bytes((0x81,)), "connect": bytes((0x80,)),
                    # connection-less data of the (connected) peer: carries no sequence number at all
                    "individual": bytes((0x03, 0x40, 0x07, 0xB0))}[inj["k"]]
            loop.at(t0 + inj["t"], (lambda s=src, tp=tpdu: bus.inject(s, OWN, tp)), label="inject")
            R.extra_faults["inject_" + inj["k"] + ("_stranger" if inj["src"] != "dev0" else "")] += 1
        by_dev: dict[int, list] = {}
        for op in plan["ops"]:
            by_dev.setdefault(op["d"], []).append(op)
        await asyncio.gather(*[worker(d, reqs) for d, reqs in sorted(by_dev.items())])
        await asyncio.sleep(10.0)
        xknx.task_registry.stop()

    R.execute(main())
    # ------------------------------------------------------------------ oracle
    # reconstruct per-device histories from the event log
    ev = R.events
    nontrivial = bool(plan["inject"]) or any(d["script"].get("ack", "normal") != "normal" or d["script"].get("respond", "normal") != "normal"
                                             for d in plan["devices"])
    # 1. Management.process never raises
    R.check_escapes("C43.receive-path-never-raises")
    # 2. request outcomes
    for r in results:
        if r["kind"] == "connect":
            continue
        if r["out"] == "HANG":
            R.violate("C43.bounded-failure", "request-hangs", f"request to dev{r['d']} did not return within {BOUND + 30}s")
        elif r["out"].startswith("other:"):
            R.violate("C43.management-error-only", r["out"], f"request to dev{r['d']} failed with a non-management error")
        elif r["out"] != "ok" and r["t_ret"] - r["t_call"] > BOUND:
            R.violate("C43.bounded-failure", "failed-late", f"{r['out']} after {r['t_ret'] - r['t_call']:.3f}s (bound {BOUND}s)")
        elif r["out"] == "ok":
            want = "DeviceDescriptorResponse" if r["kind"] == "dd0" else "AuthorizeResponse"
            if r["resp_type"] != want:
                R.violate("C43.expected-response", f"returned-{r['resp_type']}-for-{r['kind']}", "response of another type returned")
            if r["resp_src"] != DEV[r["d"]]:
                R.violate("C43.expected-response", "response-from-other-device", f"{r['resp_src']:04x}")
    # a returned response carries the expected number.  Exact reference (the transport layer's receive side, KNX 03.03.04):
    # per connection the expected number starts at 0; every data frame of that peer carrying the expected number counts - the
    # layer acknowledges it and expects the next number from then on, whether or not a request is waiting for it; every other
    # data frame is dropped.  The first counted frame delivered while a request is pending - from the hand-off of its data
    # frame to its return - is that request's response (whatever becomes of the request afterwards); counted frames nobody
    # waits for are discarded.  A request that returns a response returns that frame.
    def _is_data_handoff(e, dev_ia):
        if e[3] != "handoff":
            return False
        c = W.parse_cemi_ldata(bytes.fromhex(e[5]))
        return bool(c and not c["group"] and c["dst"] == dev_ia and c["tpdu"] and (c["tpdu"][0] & 0xC0) == 0x40)

    def _is_connect_handoff(e, dev_ia):
        if e[3] != "handoff":
            return False
        c = W.parse_cemi_ldata(bytes.fromhex(e[5]))
        return bool(c and not c["group"] and c["dst"] == dev_ia and c["tpdu"] and c["tpdu"][0] == 0x80)

    t_of = {e[0]: e[1] for e in ev}
    for di in sorted({r["d"] for r in results}):
        n_conn = next((e[0] for e in ev if _is_connect_handoff(e, DEV[di])), None)
        if n_conn is None:
            continue
        from_dev = [(n, tg) for (n, tg) in seen_in if tg.source_address.raw == DEV[di] and n > n_conn]
        expected_no = 0
        counted: list[tuple[int, Any, int]] = []        # (event number, telegram, number) of the frames the reference accepts
        for (n, tg) in from_dev:
            if type(tg.tpci).__name__ == "TDataConnected" and tg.tpci.sequence_number == expected_no:
                counted.append((n, tg, expected_no))
                expected_no = (expected_no + 1) & 0xF
        odd = [n for (n, tg) in from_dev
               if type(tg.tpci).__name__ not in ("TDataConnected", "TAck", "TNak", "TDisconnect")]
        closed = [n for (n, tg) in from_dev if type(tg.tpci).__name__ == "TDisconnect"]
        for r in [x for x in results if x["d"] == di and x["kind"] != "connect"]:
            if any(n < r["n_ret"] for n in odd):
                # the connected peer sent a T_Connect / connection-less frame inside the connection: such a frame carries no
                # sequence number and answers nothing (judged like any other frame since fix of P2PConnection.process)
                R.probes["unnumbered_frame_of_connected_peer_inside_connection"] += 1
            sent = next((e for e in ev if r["n_call"] < e[0] < r["n_ret"] and _is_data_handoff(e, DEV[di])), None)
            sent_n = sent[0] if sent else None
            taken = None
            if sent_n is not None:
                taken = next(((n, tg, no) for (n, tg, no) in counted if sent_n < n < r["n_ret"]), None)
            if r["out"] == "ok":
                if taken is None or r["resp_seq"] != taken[2] or taken[1] is not r["resp"]:
                    exp_then = next((no for (n, tg, no) in counted if n > (sent_n or 0)), expected_no)
                    R.violate("C43.expected-response", "response-number-not-expected",
                              f"dev{di}: a request returned a frame numbered {r['resp_seq']}; the expected number then was "
                              f"{exp_then} (reference takes {'frame #%d' % taken[0] if taken else 'no frame'})")
                    break
            elif r["out"] != "HANG" and taken is not None and not cfg["con_lost"]:
                # the request failed although its response arrived: legitimate when anything else went wrong - a lost
                # confirmation, a missing / late / wrong / negative acknowledgement, a response of the wrong type, a peer that closed
                # the connection or sent unnumbered frames, an answer arriving at the very instant the request gave up
                m = (W.parse_cemi_ldata(bytes.fromhex(sent[5]))["tpdu"][0] >> 2) & 0xF
                acks = [(n, tg) for (n, tg) in from_dev if sent_n < n < r["n_ret"] and type(tg.tpci).__name__ in ("TAck", "TNak")]
                want = "DeviceDescriptorResponse" if r["kind"] == "dd0" else "AuthorizeResponse"
                n_tx = sum(1 for e in ev if r["n_call"] < e[0] < r["n_ret"] and _is_data_handoff(e, DEV[di]))
                # (a repetition means an acknowledgement timeout ran out - possibly in the very instant the T_ACK came in)
                clean = (n_tx == 1 and acks and all(type(tg.tpci).__name__ == "TAck" and tg.tpci.sequence_number == m for (n, tg) in acks)
                         and t_of[acks[0][0]] < r["t_ret"] - 1e-6 and t_of[taken[0]] < r["t_ret"] - 1e-6
                         and type(taken[1].payload).__name__ == want
                         and not any(n < r["n_ret"] for n in odd) and not any(n < r["n_ret"] for n in closed))
                if clean:
                    R.violate("C43.expected-response", "valid-response-not-returned",
                              f"dev{di}: request {r['kind']} numbered {m} was acknowledged and its response (expected type, "
                              f"number {taken[2]} = the expected one, frame #{taken[0]}) arrived {r['t_ret'] - t_of[taken[0]]:.3f}s "
                              f"before it failed with {r['out']}")
                    break
                R.probes["request_failed_although_response_arrived_legitimately"] += 1
    # each delivered frame satisfies at most one request
    objs = [id(r["resp"]) for r in results if r.get("out") == "ok"]
    # (object identity is per delivered frame: the same telegram object must not be returned twice)
    if len(objs) != len(set(objs)):
        R.violate("C43.used-once", "one-response-returned-for-two-requests", "the same delivered telegram completed two requests")
    # a returned response was delivered after its request was put on the wire
    n_of = {id(tg): n for (n, tg) in seen_in}
    for r in results:
        if r.get("out") != "ok":
            continue
        n_deliv = n_of.get(id(r["resp"]))
        # "sent" = handed to the interface (the stub records the hand-off when send_cemi is entered)
        sent = [e[0] for e in ev if e[3] == "handoff" and r["n_call"] < e[0] < r["n_ret"]
                and (lambda c: c and not c["group"] and c["tpdu"] and (c["tpdu"][0] & 0xC0) == 0x40)(W.parse_cemi_ldata(bytes.fromhex(e[5])))]
        if n_deliv is None:
            R.violate("C43.expected-response", "returned-telegram-never-delivered", f"dev{r['d']}")
        elif not sent or n_deliv < sent[0]:
            R.violate("C43.expected-response", "response-delivered-before-request-was-sent",
                      f"dev{r['d']}: returned a frame delivered at event {n_deliv}; the request went out at event {sent[0] if sent else None}")
    # a response must have been delivered after its request was sent
    for r in results:
        if r.get("out") == "ok":
            sent = [e for e in ev if e[3] == "bus_out" and r["n_call"] < e[0] < r["n_ret"]]
            if not sent:
                R.violate("C43.expected-response", "response-without-request-on-the-wire", f"dev{r['d']}")
    # 3. outgoing numbered data: 0..15 cyclic per connection, repetition reuses its number
    out_by_dev: dict[int, list[tuple[int, bytes]]] = {}
    for c in bus.from_xknx:
        if not c["group"] and c["tpdu"] and (c["tpdu"][0] & 0xC0) == 0x40:
            out_by_dev.setdefault(c["dst"], []).append(((c["tpdu"][0] >> 2) & 0xF, bytes(c["tpdu"][1:]) + bytes((c["tpdu"][0] & 3,))))
    for dst, lst in out_by_dev.items():
        expect = 0
        prev = None
        for (n, body) in lst:
            if prev is not None and n == prev[0] and body == prev[1]:
                R.probes["repetition_seen"] += 1
                continue
            if n != expect:
                R.violate("C43.outgoing-numbers", "data-number-not-next", f"to {dst:04x}: numbers {[x for x, _ in lst]}")
                break
            expect = (expect + 1) & 0xF
            prev = (n, body)
        if len(lst) > 16:
            R.probes["outgoing_wraparound"] += 1
    # 3b. every T_ACK answers a data frame of the peer it is sent to: the numbered data frames handed to Management.process and
    # the T_ACKs leaving xknx pair up per peer and number (two peers may use the same numbers at the same time)
    pend: dict[tuple[int, int], int] = {}
    for e in ev:
        if e[3] == "mgmt_in" and e[5] == "TDataConnected":
            tg = next((t_ for (n_, t_) in seen_in if n_ == e[0]), None)
            if tg is not None:
                key_ = (tg.source_address.raw, tg.tpci.sequence_number)
                pend[key_] = pend.get(key_, 0) + 1
        elif e[3] == "handoff":
            c = W.parse_cemi_ldata(bytes.fromhex(e[5]))
            if c and not c["group"] and c["tpdu"] and (c["tpdu"][0] & 0xC3) == 0xC2:
                key_ = (c["dst"], (c["tpdu"][0] >> 2) & 0xF)
                if pend.get(key_, 0) > 0:
                    pend[key_] -= 1
                else:
                    R.violate("C43.ack-only-open-connection", "ack-sent-to-a-peer-that-sent-no-such-frame",
                              f"T_ACK({key_[1]}) handed to the interface for {key_[0]:04x}, which had no unacknowledged data frame "
                              f"with that number (waiting: {[(f'{k[0]:04x}', k[1]) for k, v in pend.items() if v]})")
                    break
    # 4. T_ACK leaves xknx only for numbered data from a peer with an open connection and n in {expected, expected-1}
    open_conn: dict[int, int] = {}        # peer -> expected incoming number (reference B.5)
    last_in: tuple[int, int] | None = None
    for e in ev:
        kind = e[3]
        if kind == "bus_out":
            c = W.parse_cemi_ldata(bytes.fromhex(e[5]))
            if c is None or c["group"] or not c["tpdu"]:
                continue
            t0_ = c["tpdu"][0]
            if t0_ == 0x80:
                open_conn[c["dst"]] = 0
            elif t0_ == 0x81:
                open_conn.pop(c["dst"], None)
            elif (t0_ & 0xC3) == 0xC2:
                n = (t0_ >> 2) & 0xF
                peer = c["dst"]
                if peer not in open_conn:
                    R.violate("C43.ack-only-open-connection", "ack-sent-to-peer-without-connection",
                              f"T_ACK({n}) sent to {peer:04x} which has no open connection")
                else:
                    exp = open_conn[peer]
                    if n == exp:
                        open_conn[peer] = (exp + 1) & 0xF
                    elif n == (exp - 1) & 0xF:
                        R.probes["ack_for_repeated_data"] += 1
                    else:
                        R.violate("C43.ack-only-expected-number", "ack-for-unexpected-number",
                                  f"T_ACK({n}) sent to {peer:04x}, expected incoming number {exp}")
        elif kind == "cemi_in":
            c = W.parse_cemi_ldata(bytes.fromhex(e[5]))
            if c and not c["group"] and c["tpdu"] and c["tpdu"][0] == 0x81 and c["code"] == W.L_DATA_IND:
                open_conn.pop(c["src"], None)
    R.extra_faults["script_ack_" + "+".join(sorted({d["script"].get("ack", "normal") for d in plan["devices"]}))] += 1
    R.extra_faults["script_resp_" + "+".join(sorted({d["script"].get("respond", "normal") for d in plan["devices"]}))] += 1
    abstract = [[(d["script"].get("ack"), d["script"].get("respond")) for d in plan["devices"]],
                [(i["k"], i["src"]) for i in plan["inject"]], [r.get("out") for r in results]]
    return R.result(nontrivial=nontrivial, abstract=abstract)
