"""C38 — eager group-address decoding never changes what devices see.

A "knob must not matter" property decided by twin runs: the same seed and plan
is executed twice in the simulator, once with a generated group-address/DPT
table (matching, mismatching, unknown DPTs, unused addresses) and once without;
determinism makes the comparison exact.  In the table run `decoded_data` must
equal the configured type's own decode of the payload (absent where it fails).
"""

from __future__ import annotations

import asyncio
import random
from typing import Any

from sim import wire as W
from sim.runworld import make_xknx
from sim.world import Run

ID = "C38"
LEVEL = "exploration"
RUNS = {"quick": 12000, "thorough": 1200000}
BUDGET = {"quick": 100.0, "thorough": 3300.0}
RULE = ("one run = twin executions (with / without a seeded GA->DPT table) of one seeded device set (many remote value "
        "types) and telegram stream (payload lengths 1 bit..14 octets, incoming and outgoing, writes and responses); "
        "non-trivial = the table maps at least one address that receives a telegram; distinct = distinct (device kinds, "
        "table entry classes, payload shapes)")
REAL = ["xknx.core.GroupAddressDPT", "xknx.core.TelegramQueue", "xknx.remote_value.* (via real devices)", "xknx.devices.*",
        "xknx.dpt.* transcoders"]
STUB = ["KNXIPInterface (StubInterface)", "loop (SimLoop)"]
ASSUMPTIONS = ["'state' of a device = the values of all its remote values plus, for BinarySensor, its state/counter",
               "the reference for decoded_data is the configured transcoder's own from_knx on the same payload"]

POOL = [W.ga(3, 0, i) for i in range(1, 9)]
DEVS: list[tuple[str, dict[str, Any], list[str]]] = [
    ("Switch", {}, ["group_address", "group_address_state"]),
    ("Switch", {"invert": True}, ["group_address"]),
    ("BinarySensor", {}, ["group_address_state"]),
    ("Light", {}, ["group_address_switch", "group_address_brightness", "group_address_color", "group_address_rgbw",
                   "group_address_tunable_white", "group_address_color_temperature", "group_address_hue"]),
    ("Cover", {}, ["group_address_long", "group_address_position", "group_address_angle", "group_address_position_state"]),
    ("Cover", {"invert_position": True, "invert_angle": True},
     ["group_address_position", "group_address_angle", "group_address_position_state", "group_address_angle_state"]),
    ("Light", {}, ["group_address_switch", "group_address_brightness", "group_address_brightness_state"]),
    ("Sensor", {"value_type": "temperature"}, ["group_address_state"]),
    ("Sensor", {"value_type": "percent"}, ["group_address_state"]),
    ("Sensor", {"value_type": "pulse_2byte"}, ["group_address_state"]),
    ("Sensor", {"value_type": "string"}, ["group_address_state"]),
    ("Sensor", {"value_type": "power"}, ["group_address_state"]),
    ("NumericValue", {"value_type": "percentV8"}, ["group_address", "group_address_state"]),
    ("NumericValue", {"value_type": "illuminance"}, ["group_address"]),
    ("ExposeSensor", {"value_type": "temperature"}, ["group_address"]),
    ("ExposeSensor", {"value_type": "binary"}, ["group_address"]),
    ("Scene", {}, ["group_address"]),
    ("Notification", {}, ["group_address"]),
    ("Fan", {}, ["group_address_speed", "group_address_oscillation"]),
    ("Fan", {"max_step": 3}, ["group_address_speed"]),
    ("RawValue", {"payload_length": 2}, ["group_address"]),
    ("Weather", {}, ["group_address_temperature", "group_address_brightness_south", "group_address_wind_speed",
                      "group_address_rain_alarm", "group_address_air_pressure", "group_address_humidity"]),
    ("ClimateMode", {}, ["group_address_operation_mode", "group_address_controller_status", "group_address_controller_mode",
                          "group_address_heat_cool"]),
    ("Climate", {}, ["group_address_temperature", "group_address_target_temperature", "group_address_setpoint_shift"]),
    ("DateDevice", {"localtime": False}, ["group_address"]),
    ("TimeDevice", {"localtime": False}, ["group_address"]),
]
DPTS = ["switch", "temperature", "percent", "percentV8", "pulse_2byte", "string", "power", "illuminance", "1.001", "5.001",
        "9.001", 9, {"main": 14, "sub": 56}, "color_rgb", "color_rgbw", "date", "time", "scene_number", "hvac_mode",
        "unknown_dpt_name", "999.999", None, {"main": 99}, "latin_1", "color_temperature", "angle", "wind_speed_ms",
        "humidity", "pressure_2byte", "active_energy",
        # entries that name no type in unusual ways: digits int() does not take, numbers without a value, broken mappings
        "\u00b2", "9.\u00b3", "DPT-", "9.", ".1", "9.001.2", "1e3", {"main": "x"}, {"sub": 1}, "<inf-main>", "<inf-sub>",
        {"main": 9, "sub": "\u00b9"}, -1, 10 ** 30]
HOT = ["percent", "5.001", "percentU8", "5.004", "angle", "5.003", "switch", "1.001", "temperature", "9.001", "percentV8", "6.001",
       "pulse_2byte", "7.001", "string", "16.000", "latin_1", "16.001", "scene_number", "17.001", "color_rgb", "232.600"]
PAYLOADS = [("bin", 0), ("bin", 1), ("bin", 5), ("arr", 1), ("arr", 2), ("arr", 3), ("arr", 4), ("arr", 6), ("arr", 8), ("arr", 14)]


def _spec(v):
    """Materialise the table entries JSON can not carry."""
    if v == "<inf-main>":
        return {"main": float("inf")}
    if v == "<inf-sub>":
        return {"main": 9, "sub": float("inf")}
    return v


def _ref_tc(spec):
    """The type a table entry names (None: it names none - such an entry is skipped)."""
    from xknx.dpt import DPTBase
    try:
        return DPTBase.parse_transcoder(_spec(spec))
    except Exception:  # pylint: disable=broad-except
        return None


def gen(seed: int, tier: str) -> dict[str, Any]:
    rng = random.Random(seed)
    nd = rng.choice([2, 4, 7])
    pool = rng.sample(POOL, rng.choice([2, 4, 8]))
    devs = []
    for _ in range(nd):
        di = rng.randrange(len(DEVS))
        names = DEVS[di][2]
        params = {p: rng.choice(pool) for p in rng.sample(names, rng.randint(1, min(3, len(names))))}
        devs.append({"d": di, "params": params})
    table = {}
    for a in rng.sample(POOL, rng.randint(1, len(POOL))):
        # half of the entries come from the types the devices themselves use (a table that agrees, or nearly agrees,
        # with a device is where a shared decode could leak into the device state)
        table[str(a)] = rng.choice(HOT) if rng.random() < 0.5 else rng.choice(DPTS)
    tgs = []
    repeat = rng.choice([0.0, 0.3, 0.6])       # cyclic senders repeat the same payload on the same address
    burst = rng.random() < 0.4
    for i in range(rng.choice([3, 8, 20])):
        kind, ln = rng.choice(PAYLOADS)
        data = [rng.randrange(256) for _ in range(ln)] if kind == "arr" else ln
        if kind == "arr" and rng.random() < 0.3:
            data = [0] * ln
        tg = {"addr": rng.choice(pool), "kind": kind, "data": data, "apci": rng.choice(["write", "write", "response"]),
              "dir": rng.choice(["in", "in", "out"])}
        if tgs and rng.random() < repeat:
            prev = rng.choice(tgs[-3:])
            tg.update(addr=prev["addr"], kind=prev["kind"], data=prev["data"])
        if tgs and burst and rng.random() < 0.5:
            # the next telegram - often to the same address, with another value - arrives while this one is still on its
            # way (an outgoing telegram waits for its transmission and confirmation for some milliseconds)
            tgs[-1]["gap"] = rng.choice([0.0, 0.001, 0.004])
            if rng.random() < 0.6:
                tg.update(addr=tgs[-1]["addr"], kind=tgs[-1]["kind"])
                if tg["kind"] == "arr":
                    tg["data"] = [rng.randrange(256) for _ in range(len(tgs[-1]["data"]))]
                else:
                    tg["data"] = 1 - tgs[-1]["data"] if tgs[-1]["data"] in (0, 1) else tgs[-1]["data"]
        tgs.append(tg)
    # the table is reconfigured while running (project re-import): other types for some of the addresses
    table2, retable_at = {}, None
    if rng.random() < 0.35 and len(tgs) >= 2:
        retable_at = rng.randrange(1, len(tgs))
        for a in rng.sample(sorted(pool), rng.randint(1, len(pool))):
            table2[str(a)] = rng.choice(HOT) if rng.random() < 0.6 else rng.choice(DPTS)
    return {"seed": seed, "tier": "S", "config": {"batch": 1, "shadow": rng.random() < 0.2}, "devices": devs, "table": table, "ops": tgs,
            "table2": table2, "retable_at": retable_at}


def _one(plan, with_table: bool):
    import xknx.devices as D
    from xknx.dpt import DPTArray, DPTBase, DPTBinary
    from xknx.telegram import GroupAddress, Telegram, TelegramDirection
    from xknx.telegram.apci import GroupValueResponse, GroupValueWrite

    R = Run(plan, max_time=5000.0)
    loop = R.loop
    xknx, stub, q = make_xknx(R)
    trace: list[Any] = []
    decoded: list[Any] = []
    devobjs: list[Any] = []
    table = {int(k): v for k, v in plan["table"].items()}
    table2 = {int(k): v for k, v in (plan.get("table2") or {}).items()}
    version = [1]

    def snapshot():
        out = []
        for d in devobjs:
            vals = []
            for rv in d._iter_remote_values():
                vals.append(repr(rv.value))
            if hasattr(d, "counter"):
                vals.append(("state", repr(getattr(d, "state", None)), repr(d.counter)))
            out.append(tuple(vals))
        return tuple(out)

    def sentinel(tg):
        # runs before devices for incoming, after devices for outgoing; snapshots are taken after the dispatch completes
        dd = tg.decoded_data
        decoded.append((tg.destination_address.raw, type(tg.payload.value).__name__, tuple(tg.payload.value.value)
                        if isinstance(tg.payload.value.value, tuple) else tg.payload.value.value,
                        None if dd is None else (dd.transcoder.__name__, repr(dd.value)), version[0]))

    def set_table(tb):
        try:
            xknx.group_address_dpt.set({GroupAddress(a): _spec(d) for a, d in tb.items()})
        except Exception as exc:  # pylint: disable=broad-except
            # an entry naming no type is skipped - the entries behind it still count
            R.violate("C38.decoded-data", f"table-set-raised:{type(exc).__name__}", f"GroupAddressDPT.set() raised {exc!r}")

    async def main():
        for spec in plan["devices"]:
            name, extra, _ = DEVS[spec["d"]]
            kw = {k: GroupAddress(v) for k, v in spec["params"].items()}
            kw.update(extra)
            if name not in ("ExposeSensor", "Scene", "DateDevice", "TimeDevice"):
                kw["sync_state"] = False
            devobjs.append(getattr(D, name)(xknx, f"d{len(devobjs)}", **kw))
            xknx.devices.async_add(devobjs[-1])
        if with_table:
            set_table(table)
        xknx2 = None
        if plan["config"].get("shadow"):
            # a second XKNX object of the same process whose project gives the same addresses other types; every telegram
            # passes through its queue first
            xknx2, _stub2, _q2 = make_xknx(R)
            vals = [_spec(v) for v in table.values()]
            if vals:
                other = {GroupAddress(a): vals[(k + 1) % len(vals)] for k, a in enumerate(table)}
                other.update({GroupAddress(a): "5.010" for a in POOL if a not in table})
                try:
                    xknx2.group_address_dpt.set(other)
                except Exception:  # pylint: disable=broad-except
                    pass
            await xknx2.telegram_queue.start()
            R.extra_faults["second_xknx_object_with_other_types_for_the_same_addresses"] += 1
        xknx.telegram_queue.register_telegram_received_cb(sentinel, match_for_outgoing=True)
        await xknx.start()
        for oi, op in enumerate(plan["ops"]):
            if plan.get("retable_at") == oi:
                # (nothing is on its way when the table changes: a telegram keeps what was decoded when it was queued)
                await xknx.telegrams.join()
                await asyncio.sleep(0.01)
                version[0] = 2
                if with_table:
                    set_table(table2)
            data = DPTBinary(op["data"]) if op["kind"] == "bin" else DPTArray(tuple(op["data"]))
            payload = GroupValueWrite(data) if op["apci"] == "write" else GroupValueResponse(data)
            if xknx2 is not None:
                xknx2.telegrams.put_nowait(Telegram(destination_address=GroupAddress(op["addr"]), payload=payload,
                                                    direction=TelegramDirection.INCOMING))
                await xknx2.telegrams.join()
            xknx.telegrams.put_nowait(Telegram(
                destination_address=GroupAddress(op["addr"]), payload=payload,
                direction=TelegramDirection.OUTGOING if op["dir"] == "out" else TelegramDirection.INCOMING))
            await asyncio.sleep(op.get("gap", 0.05))
            trace.append(snapshot())
        await asyncio.sleep(0.1)
        trace.append(snapshot())
        if xknx2 is not None:
            await xknx2.telegram_queue.stop()
        await xknx.stop()

    R.execute(main())
    return R, trace, decoded


def run(plan: dict[str, Any]) -> dict[str, Any]:
    from xknx.dpt import DPTArray, DPTBase, DPTBinary

    RA, trace_a, dec_a = _one(plan, True)
    RB, trace_b, dec_b = _one(plan, False)
    R = RA
    if RA.error or RB.error:
        R.error = RA.error or RB.error
    table = {int(k): v for k, v in plan["table"].items()}
    if len(trace_a) != len(trace_b):
        R.violate("C38.same-state", "trace-length-differs", f"{len(trace_a)} vs {len(trace_b)} dispatches")
    for i, (a, b) in enumerate(zip(trace_a, trace_b)):
        if a != b:
            op = plan["ops"][i]
            di = next((j for j, (x, y) in enumerate(zip(a, b)) if x != y), None)
            kind = DEVS[plan["devices"][di]["d"]][0] if di is not None else "?"
            R.violate("C38.same-state", f"state-differs:{kind}",
                      f"after telegram #{i} {op}: device {di} ({kind}) state with table {a[di]} vs without {b[di]}; "
                      f"table entry {table.get(op['addr'])!r}")
            break
    # decoded_data in the table run equals the configured type's own decode
    hit = 0
    table2 = {int(k): v for k, v in (plan.get("table2") or {}).items()}
    for (addr, ptype, pval, dd, ver) in dec_a:
        spec = table.get(addr)
        tc = _ref_tc(spec) if spec is not None else None
        if ver == 2 and addr in table2 and _ref_tc(table2[addr]) is not None:
            # set() merges: a later entry with a known type replaces the earlier one
            spec = table2[addr]
            tc = _ref_tc(spec)
        if tc is None:
            if dd is not None:
                R.violate("C38.decoded-data", "decoded-without-table-entry", f"address {addr}: {dd}")
            continue
        hit += 1
        payload = DPTBinary(pval) if ptype == "DPTBinary" else DPTArray(tuple(pval))
        try:
            want = (tc.__name__, repr(tc.from_knx(payload)))
        except Exception:  # pylint: disable=broad-except
            want = None
        if dd != want:
            R.violate("C38.decoded-data", "decoded_data!=own-decode" if want is not None else "decoded-although-decode-fails",
                      f"address {addr} table {spec!r} payload {ptype}{pval}: decoded_data {dd}, transcoder says {want}")
    for (addr, ptype, pval, dd, ver) in dec_b:
        if dd is not None:
            R.violate("C38.decoded-data", "decoded-without-table", f"address {addr}: {dd}")
    RA.check_escapes("C38.no-escape")
    abstract = [tuple(DEVS[d["d"]][0] for d in plan["devices"]),
                tuple(sorted((type(v).__name__, str(v)[:12]) for v in table.values())),
                tuple((o["kind"], len(o["data"]) if isinstance(o["data"], list) else 0) for o in plan["ops"])]
    R.extra_faults["table_entries"] += len(table)
    R.probes["telegrams_with_table_entry"] += hit
    return R.result(nontrivial=hit > 0, abstract=abstract)
