"""C34 — telegram callbacks see exactly the telegrams they subscribed to.

W-RUN with the stub interface (all sends succeed).  Registrations with address
lists, level-3 filters and internal-address globs, outgoing flag, raising or not;
(un)registration between dispatches and from inside a callback.  The expected set
is computed by an independent matcher over the registration snapshot taken by a
never-removed, first-registered sentinel callback at dispatch time.
"""

from __future__ import annotations

import asyncio
import fnmatch as _fn
import random
from typing import Any

from sim import wire as W
from sim.runworld import make_xknx
from sim.world import Run

ID = "C34"
LEVEL = "exploration"
RUNS = {"quick": 30000, "thorough": 2400000}
BUDGET = {"quick": 100.0, "thorough": 3300.0}
RULE = ("one run = seeded callback registrations (address lists, level-3 filters, internal globs, outgoing flag, raising) "
        "and a telegram stream, with (un)registrations between and during dispatch; non-trivial = >=2 registrations and "
        ">=1 telegram that matches a strict subset of them; distinct = distinct (registration shapes, per-telegram match "
        "vectors)")
REAL = ["xknx.core.TelegramQueue (registration, dispatch)", "xknx.telegram.AddressFilter", "xknx.devices.Devices/Switch",
        "xknx.cemi.CEMIHandler", "xknx.XKNX.start/stop"]
STUB = ["KNXIPInterface (StubInterface; 15 % of the outgoing group telegrams fail: CommunicationError or no L_Data.con)", "loop (SimLoop)"]
ASSUMPTIONS = ["LONG (3-level) notation; filters restricted to level-3 patterns and internal globs, whose meaning is "
               "unambiguous (free-format and 2-level patterns under LONG notation are C02's pure domain); in the runs under the "
               "FREE format whole-address patterns are added and registrations are judged on their explicit addresses and on "
               "those patterns only (a 3-level pattern can not be applied there)",
               "a callback unregistered during a dispatch before its turn, or registered during a dispatch, is unjudged "
               "for that telegram; one that stays registered throughout must be called exactly once"]

GAS = [W.ga(1, 0, 1), W.ga(1, 0, 2), W.ga(1, 1, 1), W.ga(2, 3, 10), W.ga(2, 3, 200), W.ga(5, 7, 255),
       W.ga(17, 0, 1), W.ga(18, 3, 10), W.ga(31, 7, 255), W.ga(16, 0, 0)]   # main groups 16..31 are legal too
INTERNALS = ["i-abc", "i-abd", "i-xyz"]
LEVEL_PARTS = {
    "main": ["*", "1", "2", "1-2", "1,5", "-1", "2-", "0", "17", "16-", "-15", "2,18", "31",
             # parts that overlap or lie inside one another, in any order
             "0-20,2", "*,2", "2,*", "1-5,2-3,18", "17,1-31", "5,1-2,1"],
    "middle": ["*", "0", "1", "3", "0-1", "3,7", "-3", "1-", "0-7,3", "3,0-7", "*,1", "1-3,2", "0-1,1-3"],
    "sub": ["*", "1", "2", "10", "1-2", "10-200", "200-", "-10", "1,255", "2,10-20",
            "0-255,10", "10-200,12,30", "1-10,2-3,255", "200-,255", "*,1", "10,1-255", "1-2,2-10", "0-100,50"],
}
GLOBS = ["i-abc", "i-ab?", "i-a*", "i-*", "i-x*", "i-?b?"]
FREE_PARTS = ["*", "2050", "2049-2060", "-3000", "4874-", "1,2050,36865", "2305", "60000-"]   # whole-address patterns (free format)


# ---- independent matcher
def _part_match(part: str, v: int) -> bool:
    for item in part.split(","):
        if item == "*":
            return True
        if item.isdigit():
            if int(item) == v:
                return True
        elif "-" in item:
            lo, hi = item.split("-")
            lo_i = int(lo) if lo else 0
            hi_i = int(hi) if hi else 65535
            if lo_i > hi_i:
                lo_i, hi_i = hi_i, lo_i
            if lo_i <= v <= hi_i:
                return True
    return False


def filter_match(pattern: str, addr) -> bool:
    if pattern.startswith("i"):
        return isinstance(addr, str) and _fn.fnmatchcase(addr, pattern)
    if isinstance(addr, str):
        return False
    if "/" not in pattern:
        return _part_match(pattern, addr)       # 1-level pattern: generated in free-format runs only (the whole address)
    a, b, c = pattern.split("/")
    return _part_match(a, addr >> 11) and _part_match(b, (addr >> 8) & 7) and _part_match(c, addr & 0xFF)


def reg_matches(reg: dict[str, Any], addr, outgoing: bool) -> bool:
    if outgoing and not reg["outgoing"]:
        return False
    if reg["gas"] is None and reg["filters"] is None:
        return True
    for f in reg["filters"] or []:
        if filter_match(f, addr):
            return True
    for g in reg["gas"] or []:
        if g == addr:
            return True
    return False


def gen(seed: int, tier: str) -> dict[str, Any]:
    rng = random.Random(seed)
    free = rng.random() < 0.1

    def mkreg(i):
        shape = rng.choice(["all", "gas", "filters", "both", "empty_lists"])
        gas = None
        filters = None
        if shape in ("gas", "both"):
            gas = rng.sample(GAS + INTERNALS, rng.randint(1, 3))
        if shape in ("filters", "both"):
            filters = []
            for _ in range(rng.randint(1, 2)):
                if rng.random() < 0.25:
                    filters.append(rng.choice(GLOBS))
                else:
                    filters.append("/".join(rng.choice(LEVEL_PARTS[k]) for k in ("main", "middle", "sub")))
            if free and rng.random() < 0.4:
                # a pattern that does fit the free format, behind one that does not
                filters.append(rng.choice(FREE_PARTS))
        if shape == "empty_lists":
            gas, filters = [], []
        act = None
        if rng.random() < 0.12:
            act = rng.choice([{"a": "unreg_self"}, {"a": "unreg_other", "j": rng.randrange(6)},
                              {"a": "reg_new"}])
        return {"id": i, "gas": gas, "filters": filters, "outgoing": rng.random() < 0.5,
                "raising": rng.random() < 0.2, "act": act,
                "exc": rng.choice(["RuntimeError", "ValueError", "KeyError", "XKNXException", "ConversionError",
                                   "CouldNotParseTelegram", "CommunicationError", "DataSecureError", "TimeoutError"])}

    nreg = rng.choice([1, 2, 4, 6])
    ops: list[dict[str, Any]] = []
    regs = [mkreg(i) for i in range(nreg)]
    t = 0.0
    for r in regs:
        ops.append({"t": 0.0, "op": "reg", "reg": r})
    nid = nreg
    for i in range(rng.choice([2, 5, 10, 20])):
        t += rng.choice([0.0, 0.001, 0.02, 0.2])
        r = rng.random()
        if r < 0.12:
            ops.append({"t": round(t, 6), "op": "unreg", "id": rng.randrange(nid)})
        elif r < 0.2:
            ops.append({"t": round(t, 6), "op": "reg", "reg": mkreg(nid)})
            nid += 1
        else:
            addr = rng.choice(GAS + INTERNALS) if rng.random() < 0.85 else rng.choice(GAS)
            ops.append({"t": round(t, 6), "op": "tg", "n": i + 1, "addr": addr,
                        "dir": rng.choice(["in", "in", "out"]), "via": rng.choice(["queue", "wire"])})
            if ops[-1]["dir"] == "out" and not isinstance(addr, str) and rng.random() < 0.15:
                # the send fails (interface down / confirmation missing): the telegram did not go out and is not processed
                ops[-1]["fail"] = rng.choice(["comm_error", "never"])
    # in some runs the project uses the free group address format: matching a 3-level filter pattern raises there. Such a
    # registration is a misconfiguration - what is judged is that every *other* callback and the devices still get the telegram
    return {"seed": seed, "tier": "S", "config": {"batch": 1, "free_format": free}, "ops": ops}


def run(plan: dict[str, Any]) -> dict[str, Any]:
    from xknx.devices import Switch
    from xknx.dpt import DPTArray
    from xknx.telegram import AddressFilter, GroupAddress, Telegram, TelegramDirection
    from xknx.telegram.address import InternalGroupAddress
    from xknx.telegram.apci import GroupValueWrite

    R = Run(plan, max_time=2000.0)
    loop = R.loop
    xknx, stub, q = make_xknx(R)
    free = bool(plan["config"].get("free_format"))
    from xknx.telegram.address import GroupAddressType
    if free:
        GroupAddress.address_format = GroupAddressType.FREE      # what XKNX(address_format=FREE) sets; reset by the next XKNX()
        R.extra_faults["free_address_format_with_level3_filters"] += 1
    active: dict[int, dict[str, Any]] = {}      # harness model of registrations (id -> reg)
    handles: dict[int, Any] = {}
    order: list[int] = []
    dispatches: list[dict[str, Any]] = []
    dev_seen: list[int] = []

    def tid(tg) -> int:
        try:
            return int.from_bytes(bytes(tg.payload.value.value), "big")
        except Exception:  # pylint: disable=broad-except
            return -1

    def addr_of(tg):
        d = tg.destination_address
        return d.raw if isinstance(d, (GroupAddress, InternalGroupAddress)) else None

    def sentinel(tg):
        dispatches.append({"tid": tid(tg), "addr": addr_of(tg), "out": tg.direction == TelegramDirection.OUTGOING,
                           "snapshot": [dict(active[i]) for i in order if i in active], "calls": [],
                           "mutated": [], "n": R.record("dispatch", "queue", tid(tg))})

    def register(reg):
        i = reg["id"]

        def cb(tg, i=i, reg=reg):
            if dispatches:
                dispatches[-1]["calls"].append(i)
            R.record("cb", i, tid(tg))
            act = reg.get("act")
            if act:
                d = dispatches[-1] if dispatches else None
                if act["a"] == "unreg_self":
                    unregister(i, d)
                elif act["a"] == "unreg_other":
                    unregister(act["j"], d)
                elif act["a"] == "reg_new":
                    nid = 1000 + len(handles)
                    if nid not in handles:
                        register({"id": nid, "gas": None, "filters": None, "outgoing": True, "raising": False, "act": None})
                        if d is not None:
                            d["mutated"].append(nid)
            if reg["raising"]:
                # any Exception class, in particular the library's own (which its consumer tasks handle specially)
                import xknx.exceptions as _xe
                cls = getattr(_xe, reg.get("exc", "RuntimeError"), None) or getattr(__import__("builtins"), reg.get("exc", "RuntimeError"))
                raise cls("scripted callback failure")

        filters = None if reg["filters"] is None else [AddressFilter(f) for f in reg["filters"]]
        gas = None if reg["gas"] is None else [InternalGroupAddress(g) if isinstance(g, str) else GroupAddress(g)
                                                for g in reg["gas"]]
        handles[i] = xknx.telegram_queue.register_telegram_received_cb(
            cb, address_filters=filters, group_addresses=gas, match_for_outgoing=reg["outgoing"])
        active[i] = reg
        order.append(i)

    def unregister(i, d=None):
        h = handles.get(i)
        if h is None or i not in active:
            return
        xknx.telegram_queue.unregister_telegram_received_cb(h)
        del active[i]
        if d is not None:
            d["mutated"].append(i)
            R.extra_faults["unregister_during_dispatch"] += 1

    class RecSwitch(Switch):
        def process_group_write(self, telegram):
            dev_seen.append(tid(telegram))

    failing = {o["n"]: o["fail"] for o in plan["ops"] if o["op"] == "tg" and o.get("fail")}

    def pick(raw, i):
        c = W.parse_cemi_ldata(bytes(raw))
        n = int.from_bytes(c["tpdu"][2:4], "big") if c and len(c["tpdu"]) >= 4 else -1
        if n in failing:
            R.extra_faults["send_failed_" + failing[n]] += 1
            return ({"lat": 0.002, "out": "comm_error"} if failing[n] == "comm_error"
                    else {"lat": 0.002, "out": "ok", "con": "never"})
        return None

    stub.pick = pick

    async def main():
        xknx.telegram_queue.register_telegram_received_cb(sentinel, match_for_outgoing=True)
        for g in GAS:
            xknx.devices.async_add(RecSwitch(xknx, f"sw{g}", group_address=GroupAddress(g)))
        for g in INTERNALS:
            xknx.devices.async_add(RecSwitch(xknx, f"sw{g}", group_address=g))
        await xknx.start()
        t0 = loop.time()

        def do(op):
            k = op["op"]
            if k == "reg":
                if op["reg"]["id"] not in handles:
                    register(op["reg"])
            elif k == "unreg":
                unregister(op["id"])
                R.extra_faults["unregister"] += 1
            else:
                addr = op["addr"]
                payload = GroupValueWrite(DPTArray(tuple(op["n"].to_bytes(2, "big"))))
                if op["dir"] == "in" and op["via"] == "wire" and not isinstance(addr, str):
                    stub.deliver(W.cemi_ldata(W.L_DATA_IND, 0x1109, addr, tpci_apci=W.gv_write(op["n"].to_bytes(2, "big"))))
                    return
                dst = InternalGroupAddress(addr) if isinstance(addr, str) else GroupAddress(addr)
                xknx.telegrams.put_nowait(Telegram(
                    destination_address=dst, payload=payload,
                    direction=TelegramDirection.OUTGOING if op["dir"] == "out" else TelegramDirection.INCOMING))

        tl = 0.0
        for op in plan["ops"]:
            loop.at(t0 + op["t"], (lambda o=op: do(o)), label="op")
            tl = max(tl, op["t"])
        await asyncio.sleep(tl + 1.0)
        await xknx.stop()

    try:
        R.execute(main())
    finally:
        if free:
            GroupAddress.address_format = GroupAddressType.LONG
    abstract = oracle(R, plan, dispatches, dev_seen)
    R.check_escapes("C34.no-escape")
    return R.result(nontrivial=R.probes["nontrivial"] > 0, abstract=abstract)


def oracle(R, plan, dispatches, dev_seen):
    free = bool(plan["config"].get("free_format"))
    tgs = [o for o in plan["ops"] if o["op"] == "tg"]
    abstract: list[Any] = []
    seen_tids = [d["tid"] for d in dispatches]
    for o in tgs:
        want = 0 if o.get("fail") else 1        # a telegram whose send failed is not a processed telegram
        if seen_tids.count(o["n"]) != want:
            R.violate("C34.dispatch", f"telegram-dispatched-{seen_tids.count(o['n'])}x" + (":send-failed" if o.get("fail") else ""),
                      f"telegram {o['n']} to {o['addr']} ({o['dir']}, send {o.get('fail') or 'ok'}) reached the all-matching "
                      f"sentinel {seen_tids.count(o['n'])} times")
        if dev_seen.count(o["n"]) != want:
            R.violate("C34.device-processing", f"device-processed-{dev_seen.count(o['n'])}x" + (":send-failed" if o.get("fail") else ""),
                      f"telegram {o['n']} to {o['addr']} (send {o.get('fail') or 'ok'}) processed by its device "
                      f"{dev_seen.count(o['n'])} times")
    for d in dispatches:
        snap = d["snapshot"]
        exp = [r["id"] for r in snap if reg_matches(r, d["addr"], d["out"])]
        calls = d["calls"]
        if free and not isinstance(d["addr"], str):
            # registrations whose filter evaluation raises under this format are unjudged for group telegrams
            # - unless the telegram matches one of their explicit group addresses: a pattern that can not be applied
            # matches nothing, it does not hide the callback's other subscriptions
            odd = {r["id"] for r in snap if any("/" in f for f in (r["filters"] or []))
                   and d["addr"] not in (r["gas"] or [])
                   and not any("/" not in f and filter_match(f, d["addr"]) for f in (r["filters"] or []))}
            exp = [r["id"] for r in snap if r["id"] not in odd and (r["outgoing"] or not d["out"]) and (
                (r["gas"] is None and r["filters"] is None) or d["addr"] in (r["gas"] or [])
                or any("/" not in f and filter_match(f, d["addr"]) for f in (r["filters"] or [])))]
            exp = [e for e in exp if e not in odd]
            calls = [c for c in calls if c not in odd]
            snap = [r for r in snap if r["id"] not in odd]
        vec = tuple(1 if r["id"] in exp else 0 for r in snap)
        abstract.append((d["out"], isinstance(d["addr"], str), vec, bool(d["mutated"])))
        if len(snap) >= 2 and 0 < sum(vec) < len(vec):
            R.probes["nontrivial"] += 1
        if not d["mutated"]:
            if calls != exp:
                extra = [c for c in calls if c not in exp]
                missing = [e for e in exp if e not in calls]
                dup = [c for c in set(calls) if calls.count(c) > 1]
                sig = ("callback-called-twice" if dup else "non-matching-callback-called" if extra else
                       "matching-callback-not-called" if missing else "order")
                if sig != "order":
                    R.violate("C34.exact-callbacks", sig,
                              f"telegram {d['tid']} addr={d['addr']} out={d['out']}: expected {exp}, called {calls}; "
                              f"regs={[(r['id'], r['gas'], r['filters'], r['outgoing']) for r in snap]}")
        else:
            # registrations changed from inside a callback: judge only callbacks that stayed registered throughout
            stable = [e for e in exp if e not in d["mutated"]]
            for e in stable:
                n = calls.count(e)
                if n != 1:
                    R.violate("C34.in-dispatch", f"stable-callback-called-{n}x",
                              f"telegram {d['tid']}: callback {e} stayed registered during the dispatch but was called {n} times "
                              f"(registrations changed from inside a callback: {d['mutated']}); expected {exp}, called {calls}")
            for c in calls:
                if c not in exp and c < 1000:
                    R.violate("C34.in-dispatch", "non-matching-callback-called", f"telegram {d['tid']}: {c} called, expected {exp}")
    return abstract
