"""C46 — automatic connection never downgrades a secured gateway.

W-DISC: real KNXIPInterface._start_automatic (GatewayScanner, GatewayScanFilter,
GatewayDescriptor, tunnels / routing, in-memory Keyring) against 1-3 gateways that
answer SearchRequests with planned DIBs in seeded order, with loss and delay, and
accept plain UDP, plain TCP and IP Secure connections alike.  *All* combinations
of gateway capability flags x filter flags x keyring host filter are enumerated for
a single gateway; multi-gateway schedules are seeded.
"""

from __future__ import annotations

import asyncio
import itertools
import random
from typing import Any

from sim import crypto as C
from sim import wire as W
from sim.discovery import DiscGateway
from sim.runworld import RecordingQueue
from sim.world import Run

ID = "C46"
LEVEL = "fault_enumeration"
CAPS = [dict(routing=r, tunnelling=t, sec_tunnelling=st, sec_routing=sr, core=c)
        for r in (0, 1) for t in (0, 1, 2) for (st, sr) in ((0, 0), (1, 0), (0, 1), (1, 1)) for c in (1, 2)]
FILTERS = list(itertools.product((False, True), repeat=5))
HOSTF = ["none", "match", "mismatch"]
N_ENUM = len(CAPS) * len(FILTERS) * len(HOSTF)
EXHAUSTIVE = [f"all {N_ENUM} single-gateway combinations: capability flags (routing x tunnelling version x secured families x "
              "core version) x 32 filter flag vectors x keyring host filter {none, matching, mismatching}"]
EXTRA = {"quick": 2000, "thorough": 1800000}


class _Runs(dict):
    def __getitem__(self, tier):
        return N_ENUM + EXTRA[tier]


RUNS = _Runs()
BUDGET = {"quick": 100.0, "thorough": 3300.0}
CHUNK = 300
RULE = ("indices below the enumeration size = the i-th (capabilities, filter, keyring host filter) combination with one gateway; "
        "above = seeded 1-3 gateway worlds with discovery loss/delay/order and credentials present or absent; non-trivial = at "
        "least one gateway announces a secured service; distinct = distinct (capability vectors, filter, outcome)")
REAL = ["xknx.io.KNXIPInterface._start_automatic and _start_* helpers", "xknx.io.GatewayScanner / GatewayScanFilter / "
        "GatewayDescriptor", "xknx.knxip DIB codecs", "xknx.io.tunnel.*", "xknx.io.routing.Routing", "xknx.io.ip_secure.*",
        "xknx.secure.keyring.Keyring accessors (populated in memory)", "xknx.XKNX.start/stop"]
STUB = ["gateways answering discovery and accepting plain and secure connections (sim.discovery.DiscGateway)", "network (SimNet)",
        "ifaddr (fixed adapter list)", "loop (SimLoop)"]
ASSUMPTIONS = ["a gateway 'announces a service as secured' through the secured-service-families DIB of its extended search response; a "
               "core-v1 search response carries no such DIB",
               "independent IP Secure crypto anchored on AN159 vectors"]


def preflight():
    return C.anchor_selftest()


def gen_index(i: int, seed: int, tier: str) -> dict[str, Any]:
    rng = random.Random(seed)
    if i < N_ENUM:
        ci, rest = divmod(i, len(FILTERS) * len(HOSTF))
        fi, hi = divmod(rest, len(HOSTF))
        gws = [dict(CAPS[ci], disc={})]
        flt = list(FILTERS[fi])
        host = HOSTF[hi]
        creds = rng.choice(["direct", "keyring", "keyring"]) if host != "none" else rng.choice(["direct", "none"])
        if host != "none":
            creds = "keyring"
    else:
        gws = []
        for _ in range(rng.choice([1, 2, 3])):
            g = dict(rng.choice(CAPS))
            if g["core"] == 2 and rng.random() < 0.4:
                g["core"] = rng.choice([3, 3, 4, 255])      # later versions of the core family: what holds for 2 holds for them
            g["disc"] = {"ext": rng.choice(["ok", "ok", "drop", 0.5, 2.0]), "plain": rng.choice(["ok", "ok", "drop", 0.3, 2.5])}
            g["empty_secured_dib"] = rng.random() < 0.2
            g["dib_order"] = rng.choice(["std", "std", "secured_first", "reversed", "families_last"])
            gws.append(g)
        flt = [rng.random() < 0.7 for _ in range(5)]
        host = rng.choice(HOSTF)
        creds = "keyring" if host != "none" else rng.choice(["direct", "none", "none"])
    # a gateway may refuse or ignore tunnel connections (no free slot, overloaded): whatever the client falls back to must
    # still not be a service the gateway announces as secured
    for g in gws:
        g["connect"] = rng.choice(["ok", "ok", "ok", "refuse", "drop"])
    return {"seed": seed, "tier": "S", "config": {"filter": flt, "host": host, "creds": creds, "batch": 1,
                                                   "backbone": rng.random() < 0.3}, "gateways": gws, "ops": []}


def gen(seed, tier):
    return gen_index(10 ** 9, seed, tier)


def ref_filter(flt, g) -> bool:
    """Reference predicate: an enabled method is supported and its security requirement agrees."""
    tun, tun_tcp, rout, stun, srout = flt
    sup_tun = g["tunnelling"] >= 1
    sup_tcp = g["tunnelling"] >= 2
    sup_rout = bool(g["routing"])
    req_t = bool(g["sec_tunnelling"]) and g["core"] >= 2
    req_r = bool(g["sec_routing"]) and g["core"] >= 2
    return ((tun and sup_tun and not req_t) or (tun_tcp and sup_tcp and not req_t) or (rout and sup_rout and not req_r)
            or (stun and sup_tcp and req_t) or (srout and sup_rout and req_r))


def run(plan: dict[str, Any]) -> dict[str, Any]:
    from xknx import XKNX
    from xknx.exceptions import XKNXException
    from xknx.io import ConnectionConfig, ConnectionType, GatewayScanFilter, SecureConfig
    from xknx.secure.keyring import InterfaceType, Keyring, XMLInterface
    from xknx.telegram import IndividualAddress

    cfg = plan["config"]
    R = Run(plan, max_time=5000.0)
    loop, net = R.loop, R.net
    rng = random.Random(plan["seed"] ^ 0xC46)
    gws: list[DiscGateway] = []
    for i, g in enumerate(plan["gateways"]):
        gws.append(DiscGateway(net, random.Random(plan["seed"] + i), dict(g, name=f"gw{i}"), ip=f"10.0.0.{10 + i}",
                               ind_addr=W.ia(1, i + 1, 0)))
        if g.get("connect", "ok") != "ok":
            beh = {"k": "error", "status": 0x24} if g["connect"] == "refuse" else {"k": "drop"}
            gws[-1].script = dict(gws[-1].script or {}, connect=[beh] * 6)
            R.extra_faults["tunnel_connect_" + g["connect"]] += 1
    flt = cfg["filter"]
    scan_filter = GatewayScanFilter(tunnelling=flt[0], tunnelling_tcp=flt[1], routing=flt[2], secure_tunnelling=flt[3],
                                    secure_routing=flt[4])
    secure_config = None
    if cfg["creds"] == "direct":
        secure_config = SecureConfig(user_id=2, user_password="user", device_authentication_password="dev")
    elif cfg["creds"] == "keyring":
        kr = Keyring()
        host_ia = gws[0].ind_addr if cfg["host"] == "match" and gws else W.ia(9, 9, 9)
        for slot in (1, 2):
            xi = XMLInterface()
            xi.type = InterfaceType.TUNNELING
            xi.individual_address = IndividualAddress(host_ia + slot)
            xi.host = IndividualAddress(host_ia) if cfg["host"] != "none" else None
            xi.user_id = 2
            xi.decrypted_password = "user"
            xi.decrypted_authentication = "dev"
            xi.group_addresses = {}
            kr.interfaces.append(xi)
        secure_config = SecureConfig(keyring=kr, backbone_key="000102030405060708090a0b0c0d0e0f" if cfg["backbone"] else None)
    info: dict[str, Any] = {"out": None, "gw_info": None, "type": None}

    async def main():
        cc = ConnectionConfig(connection_type=ConnectionType.AUTOMATIC, scan_filter=scan_filter, secure_config=secure_config,
                              auto_reconnect=False)
        xknx = XKNX(connection_config=cc)
        try:
            async with asyncio.timeout(120):
                await xknx.start()
            info["out"] = "connected"
            iface = xknx.knxip_interface._interface
            info["type"] = type(iface).__name__ if iface is not None else None
            gi = await xknx.knxip_interface.gateway_info()
            info["gw_info"] = gi.ip_addr if gi is not None else None
            info["conn_type"] = xknx.connection_manager.connection_type.name
        except TimeoutError:
            info["out"] = "HANG"
        except XKNXException as exc:
            info["out"] = type(exc).__name__
        await asyncio.sleep(1.0)
        try:
            async with asyncio.timeout(60):
                await xknx.stop()
        except (XKNXException, TimeoutError):
            pass
        await asyncio.sleep(0.5)

    R.execute(main())
    # ------------------------------------------------------------------ oracle
    nontrivial = False
    for g, gw in zip(plan["gateways"], gws):
        announces_sec_t = bool(g["sec_tunnelling"]) and g["core"] >= 2 and "ext" in gw.answered
        announces_sec_r = bool(g["sec_routing"]) and g["core"] >= 2 and "ext" in gw.answered
        if g["sec_tunnelling"] or g["sec_routing"]:
            nontrivial = True
        # announcing = the gateway *would* announce it in its extended response; a client that only saw the plain response
        # of a core-v2 device must not use it either (it is told to skip those)
        secured_t = bool(g["sec_tunnelling"]) and g["core"] >= 2
        if secured_t and gw.plain_connects:
            R.violate("C46.no-plain-tunnel-to-secured-gateway", f"plain-{gw.plain_connects[0]['via']}-connect-to-secured-gateway",
                      f"gateway {gw.ip} announces tunnelling as secured (caps {g}); received a plain ConnectRequest over {gw.plain_connects[0]['via']}")
        if info["type"] == "Routing" and info["gw_info"] == gw.ip and bool(g["sec_routing"]) and g["core"] >= 2:
            R.violate("C46.no-plain-routing-to-secured-gateway", "plain-routing-selected-for-secured-router",
                      f"plain routing established; gateway_info() names {gw.ip} which announces routing as secured")
    # single-gateway enumeration: the scanner's verdict equals the reference predicate
    if len(gws) == 1 and not plan["gateways"][0].get("disc"):
        g = plan["gateways"][0]
        want = ref_filter(flt, g)
        host_ok = cfg["host"] != "mismatch" or cfg["creds"] != "keyring"
        connected = info["out"] == "connected"
        if connected and not want:
            R.violate("C46.filter", "connected-although-filter-rejects",
                      f"caps {g} filter {flt}: reference predicate rejects the gateway, but start() connected via {info['type']}")
        if connected and cfg["host"] == "mismatch" and cfg["creds"] == "keyring":
            R.violate("C46.filter", "connected-to-gateway-outside-keyring-hosts", f"caps {g}")
        # usable = matches the filter and a connection method the client can actually use exists
        secured_t = bool(g["sec_tunnelling"]) and g["core"] >= 2
        secured_r = bool(g["sec_routing"]) and g["core"] >= 2
        usable_plain = (g["tunnelling"] >= 1 and not secured_t) or (g["routing"] and not secured_r and g["tunnelling"] == 0)
        if want and host_ok and usable_plain and not connected and info["out"] != "HANG":
            R.probes["matching_gateway_not_connected:" + str(info["out"])] += 1
    R.probes[f"outcome_{info['out']}_{info['type']}"] += 1
    R.probes["plain_connects_seen"] += sum(len(g.plain_connects) for g in gws)
    R.probes["secure_sessions_seen"] += sum(1 for g in gws for s in g.sessions.values() if s.authenticated)
    if info["out"] == "HANG":
        R.violate("C46.terminates", "start-hangs", "xknx.start() did not return within 120 s")
    if info["out"] == "connected" and info["type"] is None:
        R.probes["start_succeeded_without_interface"] += 1
    for gw in gws:
        for (clause, sig, detail) in gw.violations:
            if clause.startswith("C28") or "sequence" in clause:
                R.violate("C46." + clause.split(".", 1)[1], sig, detail)
    R.check_escapes("C46.no-escape")
    R.extra_faults["discovery_response_dropped"] += sum(1 for g in plan["gateways"] for v in (g.get("disc") or {}).values() if v == "drop")
    R.extra_faults["discovery_response_delayed"] += sum(1 for g in plan["gateways"] for v in (g.get("disc") or {}).values()
                                                        if isinstance(v, (int, float)))
    abstract = [[tuple(sorted((k, v) for k, v in g.items() if k != "disc")) for g in plan["gateways"]], tuple(flt), cfg["host"],
                cfg["creds"], info["out"], info["type"]]
    return R.result(nontrivial=nontrivial, abstract=abstract)
