"""C40 — cover position estimates stay within bounds and never fail.

The real TravelCalculator (and, in a second mode, a real Cover with its
periodic-updater / auto-stop tasks under the virtual-time loop) driven through
the wall-clock seam: command / report histories with clock advances from
{0, 1 ns .. 1 ms, 1/4 1/2 3/4 1x remaining travel time, beyond}, epoch bases from
0 to 2e9 s.  Oracle: exact rational reference on the float inputs.
"""

from __future__ import annotations

import asyncio
from fractions import Fraction
import random
from typing import Any

from sim import wire as W
from sim.world import Run

ID = "C40"
LEVEL = "exploration"
RUNS = {"quick": 100000, "thorough": 4500000}
BUDGET = {"quick": 100.0, "thorough": 3300.0}
CHUNK = 1000
RULE = ("one run = one seeded history of start_travel / up / down / stop / set_position / update_position and queries with "
        "clock advances drawn from {0, sub-ms, fractions of the remaining travel time, exactly the remaining time, beyond} at "
        "a seeded epoch base; non-trivial = at least one query strictly inside a movement or exactly at its end; distinct = "
        "distinct (op kinds, advance classes, epoch magnitude)")
REAL = ["xknx.devices.travelcalculator.TravelCalculator", "xknx.devices.Cover (cover mode: set_position/stop/process, "
        "periodic updater and auto-stop tasks on the virtual-time loop)"]
STUB = ["wall clock (time.time seam in xknx.devices.travelcalculator)", "KNXIPInterface (StubInterface, cover mode)"]
ASSUMPTIONS = ["travel times > 0 (a zero travel time is outside the statement's 'random travel times')",
               "'reaches the target exactly when the travel time has elapsed' is judged as: elapsed >= T => estimate == target, "
               "and estimate == target => at most one position unit early (integer truncation)",
               "the elapsed-time clause applies to movements started with start_travel*; after stop()/set_position it does not"]


def gen(seed: int, tier: str) -> dict[str, Any]:
    rng = random.Random(seed)
    base = rng.choice([0.0, 1.0, 1000.0, 1.0e6, 1.7e9, 2.0e9, rng.uniform(0, 2.0e9)])
    tt = lambda: rng.choice([rng.uniform(0.05, 5.0), rng.uniform(5, 120), float(rng.randint(1, 60)), 25.0, 0.1])
    cfg = {"epoch": base, "down": round(tt(), 6), "up": round(tt(), 6),
           # "cover": the same history driven through a real Cover device (telegram queue, remote values, periodic
           # updater task) on the virtual-time loop instead of the bare TravelCalculator
           "mode": "cover" if rng.random() < 0.12 else "tc"}
    cfg["shadow"] = cfg["mode"] == "tc" and rng.random() < 0.25
    ops = []
    n = rng.choice([3, 6, 12, 25])
    for _ in range(n):
        k = rng.choices(["start", "up", "down", "stop", "set", "report", "query"], [5, 2, 2, 3, 1, 2, 8])[0]
        op: dict[str, Any] = {"op": k}
        if k in ("start", "set", "report"):
            op["p"] = rng.choice([0, 100, 50, rng.randint(0, 100), rng.randint(0, 100)])
        op["adv"] = rng.choice(["0", "0", "ns", "us", "ms", "q1", "q2", "q3", "full", "full", "full+ulp", "full-ulp", "beyond", "abs"])
        if op["adv"] == "abs":
            op["dt"] = round(rng.uniform(0.0, 30.0), rng.choice([0, 3, 9]))
        ops.append(op)
    return {"seed": seed, "tier": "S", "config": cfg, "ops": ops}


def run(plan: dict[str, Any]) -> dict[str, Any]:
    import math

    from xknx.devices.travelcalculator import TravelCalculator

    cfg = plan["config"]
    cover_mode = cfg.get("mode", "tc") == "cover"
    R = Run(plan, max_time=1.0e7) if cover_mode else Run(plan)
    clock = [float(cfg["epoch"])]
    R.env.wall_override = lambda: clock[0]
    tc = TravelCalculator(cfg["down"], cfg["up"])
    # a second cover with other travel times moves in the same process: it gets every command first and is queried first
    tc2 = TravelCalculator(cfg["down"] * 3 + 7, cfg["up"] / 2 + 1) if cfg.get("shadow") else None
    if tc2 is not None:
        R.extra_faults["second_cover_with_other_travel_times_moving_meanwhile"] += 1
    dev: dict[str, Any] = {"cover": None, "xknx": None, "stub": None}
    # ---- reference state
    m: dict[str, Any] = {"last": None, "ts": None, "target": None, "moving": False, "dir": 0}
    prev_q: list[Any] = [None]   # previous query result since the last command
    abstract: list[Any] = [int(math.log10(cfg["epoch"] + 1))]

    def T_exact():
        if m["last"] is None or m["target"] is None:
            return None
        rng_ = m["target"] - m["last"]
        full = Fraction(cfg["down"]) if rng_ > 0 else Fraction(cfg["up"])
        return full * abs(rng_) / 100

    def remaining_float():
        """Remaining travel time as a float (only used to *choose* the next clock reading)."""
        if m["last"] is None or m["target"] is None or m["ts"] is None:
            return 1.0
        T = T_exact()
        el = Fraction(clock[0]) - Fraction(m["ts"])
        rem = T - el
        return float(rem) if rem > 0 else float(T if T > 0 else 1)

    def advance(op):
        a = op["adv"]
        rem = remaining_float()
        now = clock[0]
        if a == "0":
            dt = 0.0
        elif a == "ns":
            dt = 1e-9
        elif a == "us":
            dt = 1e-6
        elif a == "ms":
            dt = 1e-3
        elif a in ("q1", "q2", "q3"):
            dt = rem * {"q1": 0.25, "q2": 0.5, "q3": 0.75}[a]
        elif a == "full":
            dt = rem
        elif a == "full+ulp":
            dt = math.nextafter(rem, math.inf)
        elif a == "full-ulp":
            dt = math.nextafter(rem, 0.0)
        elif a == "beyond":
            dt = rem * 1.5 + 1.0
        else:
            dt = op.get("dt", 1.0)
        new = now + dt
        if new < now:
            new = now
        clock[0] = new
        return a

    def check_query(r, where):
        """Judge one estimate against the reference at the current clock reading."""
        if r is None:
            if m["last"] is not None:
                R.violate("C40.bounds", "unknown-although-position-known", f"{where}: estimate None, last known {m['last']}")
            return
        if not isinstance(r, int) or isinstance(r, bool):
            R.violate("C40.bounds", f"not-an-integer:{type(r).__name__}", f"{where}: {r!r}")
            return
        if m["last"] is None:
            R.violate("C40.bounds", "estimate-without-known-position", f"{where}: {r}")
            return
        tgt = m["target"] if m["target"] is not None else m["last"]
        lo, hi = min(m["last"], tgt), max(m["last"], tgt)
        if r < lo or r > hi:
            R.violate("C40.bounds", "pos<min(last,target)" if r < lo else "pos>max(last,target)",
                      f"{where}: estimate {r} outside [{lo},{hi}] (last {m['last']}, target {tgt}, clock {clock[0]!r}, "
                      f"since {m['ts']!r}, down {cfg['down']}, up {cfg['up']})")
            return
        if prev_q[0] is not None:
            # monotone toward the target
            if abs(tgt - r) > abs(tgt - prev_q[0]):
                R.violate("C40.monotone", "moved-away-from-target", f"{where}: {prev_q[0]} -> {r} (target {tgt})")
        prev_q[0] = r
        if m["moving"] and tgt != m["last"]:
            consistent = (tgt > m["last"] and m["dir"] >= 0) or (tgt < m["last"] and m["dir"] <= 0)
            if consistent:
                T = T_exact()
                el = Fraction(clock[0]) - Fraction(m["ts"])
                # readings closer to the arrival instant than the float clock can resolve are unjudged
                tol = Fraction(4 * math.ulp(max(abs(clock[0]), abs(m["ts"]), 1e-300)) + 4 * math.ulp(float(T)))
                if T - tol < el < T + tol and r != tgt:
                    R.probes["query_within_clock_resolution_of_arrival(unjudged)"] += 1
                elif el >= T:
                    R.probes["query_at_or_after_arrival"] += 1
                    if el == T:
                        R.probes["query_exactly_at_arrival"] += 1
                    if r != tgt:
                        R.violate("C40.arrival", "not-at-target-after-travel-time",
                                  f"{where}: estimate {r}, target {tgt}; elapsed {float(el)!r} >= travel time {float(T)!r}")
                else:
                    R.probes["query_inside_movement"] += 1
                    if r == tgt:
                        unit = T / abs(tgt - m["last"])
                        if el < T - unit:
                            R.violate("C40.arrival", "at-target-more-than-one-unit-early",
                                      f"{where}: estimate == target {tgt} but elapsed {float(el)!r} of {float(T)!r}")

    def call(fn, *a):
        try:
            return True, fn(*a)
        except Exception as exc:  # pylint: disable=broad-except
            R.violate("C40.never-raises", f"{type(exc).__name__}@{fn.__name__}", f"{fn.__name__}{a} raised {exc!r}")
            return False, None

    GA_LONG, GA_STOP, GA_POS, GA_POS_STATE = 0x0A01, 0x0A02, 0x0A03, 0x0A04

    async def settle():
        """Cover mode: let the telegram queue hand the command to the device (the wall clock does not move)."""
        if cover_mode:
            await dev["xknx"].telegrams.join()
            await asyncio.sleep(0)

    async def cmd(kind: str, p: int | None):
        """Issue one command to the object under test."""
        if not cover_mode:
            if tc2 is not None:
                try:
                    {"start": tc2.start_travel, "up": tc2.start_travel_up, "down": tc2.start_travel_down, "stop": tc2.stop,
                     "set": tc2.set_position, "report": tc2.update_position}[kind](*((p,) if p is not None else ()))
                except Exception:  # pylint: disable=broad-except
                    pass
            fn = {"start": tc.start_travel, "up": tc.start_travel_up, "down": tc.start_travel_down, "stop": tc.stop,
                  "set": tc.set_position, "report": tc.update_position}[kind]
            return call(fn, *((p,) if p is not None else ()))
        cover = dev["cover"]
        try:
            if kind == "start":
                await cover.set_position(p)
            elif kind == "up":
                await cover.set_up()
            elif kind == "down":
                await cover.set_down()
            elif kind == "stop":
                await cover.stop()
            else:
                # a position report of the actuator on the state address
                raw = bytes((round(p * 255 / 100),))
                dev["stub"].deliver(W.cemi_ldata(W.L_DATA_IND, 0x1105, GA_POS_STATE, tpci_apci=W.gv_write(raw)), "report")
            await settle()
            return True, None
        except Exception as exc:  # pylint: disable=broad-except
            R.violate("C40.never-raises", f"{type(exc).__name__}@cover.{kind}", f"cover {kind}({p}) raised {exc!r}")
            return False, None

    def current_position():
        if tc2 is not None and not cover_mode:
            try:
                tc2.current_position()
            except Exception:  # pylint: disable=broad-except
                pass
        return dev["cover"].current_position() if cover_mode else tc.current_position()

    cur = current_position

    async def drive():
        for idx, op in enumerate(plan["ops"]):
            before = clock[0]
            a = advance(op)
            if cover_mode and clock[0] > before:
                await asyncio.sleep(min(clock[0] - before, 600.0))   # loop time follows: periodic updater ticks run
            k = op["op"]
            now = clock[0]
            abstract.append((k, a))
            if k == "query":
                ok, r = call(cur)
                if ok:
                    check_query(r, f"op#{idx} query")
                obj = dev["cover"] if cover_mode else tc
                for fn in (obj.is_traveling, obj.position_reached, obj.is_open, obj.is_closed, obj.is_opening, obj.is_closing):
                    call(fn)
                continue
            if k in ("start", "up", "down"):
                tgt = op.get("p", 0) if k == "start" else (0 if k == "up" else 100)
                # the estimate at the instant of the command becomes the new known position: judge it first
                ok, r0 = call(cur)
                if ok:
                    check_query(r0, f"op#{idx} before {k}")
                ok2, _ = await cmd(k, tgt if k == "start" else None)
                if not (ok and ok2):
                    break
                if m["last"] is None:
                    m.update(last=tgt, ts=now, target=tgt, moving=False, dir=0)
                else:
                    m.update(last=r0, ts=now, target=tgt, moving=True, dir=1 if tgt > r0 else -1)
                prev_q[0] = None
            elif k == "stop":
                ok, r0 = call(cur)
                if ok:
                    check_query(r0, f"op#{idx} before stop")
                ok2, _ = await cmd("stop", None)
                if not (ok and ok2):
                    break
                if m["last"] is not None:
                    m.update(last=r0, target=r0, moving=False, dir=0)
                prev_q[0] = None
            elif (k == "set" and not cover_mode) or (k in ("set", "report") and cover_mode and not dev["cover"].is_traveling()):
                # (cover mode knows reports only: a report to a cover that is not travelling sets the position)
                ok, _ = await cmd("set", op["p"])
                if not ok:
                    break
                m.update(last=op["p"], ts=now, target=op["p"], moving=False)
                prev_q[0] = None
            elif k in ("set", "report"):
                ok, _ = await cmd("report", op["p"])
                if not ok:
                    break
                m.update(last=op["p"], ts=now)
                # the cover reports that it arrived: the movement is over; a report that differs from the target means there
                # is still (or again) a way to go
                m["moving"] = op["p"] != m["target"]
                prev_q[0] = None
            # every command is followed by an immediate query at the same clock reading (equal readings are legal)
            ok, r = call(cur)
            if ok:
                check_query(r, f"op#{idx} after {k}")

    if not cover_mode:
        coro = drive()
        try:
            coro.send(None)          # no suspension point is reached in this mode
            raise RuntimeError("C40 driver suspended in TravelCalculator mode")
        except StopIteration:
            pass
    else:
        from sim.runworld import make_xknx
        from xknx.devices import Cover
        from xknx.telegram import GroupAddress

        async def main():
            xknx, stub, q = make_xknx(R)
            cover = Cover(xknx, "cover", group_address_long=GroupAddress(GA_LONG), group_address_stop=GroupAddress(GA_STOP),
                          group_address_position=GroupAddress(GA_POS), group_address_position_state=GroupAddress(GA_POS_STATE),
                          travel_time_down=cfg["down"], travel_time_up=cfg["up"], sync_state=False)
            xknx.devices.async_add(cover)
            dev.update(cover=cover, xknx=xknx, stub=stub)
            await xknx.start()
            await drive()
            await xknx.stop()
        R.execute(main())
        R.check_escapes("C40.never-raises")
        R.probes["cover_mode_runs"] += 1
    nontrivial = R.probes["query_inside_movement"] + R.probes["query_at_or_after_arrival"] > 0
    R.env.wall_override = None
    return R.result(nontrivial=nontrivial, abstract=abstract)
