"""C27 — routing honours busy flow control and the indication spacing.

W-RT: a real Routing interface (UDPTransport in multicast mode on the simulated
network) with 1-3 concurrent send_cemi callers; a peer router multicasts
RoutingBusy frames with wait times {0,1,20,50,100,500,1000,65535 ms} at planned
offsets: bursts inside and outside the 10 ms cooldown, frames placed exactly at
the resume instant (0-3 loop iterations later), under virtual time.
"""

from __future__ import annotations

import asyncio
import random
from typing import Any

from sim import wire as W
from sim.world import Run

ID = "C27"
LEVEL = "exploration"
RUNS = {"quick": 40000, "thorough": 3000000}
BUDGET = {"quick": 100.0, "thorough": 3300.0}
RULE = ("one run = one seeded schedule of sends (1-3 concurrent callers) and RoutingBusy frames (wait time, offset, bursts, "
        "placements at the resume instant); non-trivial = at least one busy frame while a send is pending or two sends "
        "within 20 ms; distinct = distinct (busy placement classes, sender concurrency, send gap classes)")
REAL = ["xknx.io.routing.Routing", "xknx.io.routing._RoutingFlowControl", "xknx.io.transport.UDPTransport (multicast)",
        "xknx.knxip codecs", "xknx.core.ConnectionManager"]
STUB = ["peer router multicasting RoutingBusy (harness)", "multicast network (SimNet)", "random (harness-owned PRNG)",
        "loop (SimLoop)"]
ASSUMPTIONS = ["lower bound judged without the random extension (sending before wait_time elapsed is the violation; the "
               "extension only delays further)",
               "resume bound: end of pause + 50 ms x busy frames seen + 100 ms x busy frames (slow duration) + 0.2 s"]
GA = W.ga(2, 2, 2)
MCAST = ("224.0.23.12", 3671)
WAITS = [0, 1, 20, 50, 100, 500, 1000, 65535]


def gen(seed: int, tier: str) -> dict[str, Any]:
    rng = random.Random(seed)
    ops: list[dict[str, Any]] = []
    n_s = rng.choice([1, 2, 4, 8, 15])
    t = 0.05
    for i in range(n_s):
        t += rng.choice([0.0, 0.0, 0.001, 0.019, 0.02, 0.021, 0.1, 0.6])
        ops.append({"t": round(t, 6), "op": "send", "id": i + 1})
        if rng.random() < 0.2:
            # a point-to-point frame (transport layer control or data) instead of group data - paced like any other
            ops[-1]["tl"] = rng.choice(["connect", "disconnect", "ack", "nak", "data", "individual"])
        if rng.random() < 0.12:
            # the caller gives the send up (timeout / cancelled task) - possibly while it waits in the flow control
            ops[-1]["cancel_after"] = rng.choice([0.0, 0.001, 0.005, 0.019, 0.05, 0.3])
    tmax = t + 0.3
    n_b = rng.choice([0, 1, 2, 4, 8])
    tb = rng.uniform(0.0, tmax)
    for i in range(n_b):
        w = rng.choice(WAITS[:-1]) if rng.random() < 0.95 else 65535
        mode = rng.choice(["abs", "burst", "at_resume", "at_resume"]) if i else "abs"
        op: dict[str, Any] = {"op": "busy", "wait": w}
        if mode == "abs":
            tb = rng.uniform(0.0, tmax)
            op["t"] = round(tb, 6)
        elif mode == "burst":
            tb += rng.choice([0.0, 0.001, 0.009, 0.011, 0.03])
            op["t"] = round(tb, 6)
        else:
            # exactly when the previous pause (without extension) ends, plus 0..3 loop iterations
            prev = [o for o in ops if o["op"] == "busy"][-1]
            op["t"] = round(prev["t"] + (0.0 if "iters" in prev else 0.001) + prev["wait"] / 1000.0, 6)
            op["iters"] = rng.choice([0, 1, 2, 3])
            op["lat"] = 0.0
        ops.append(op)
    if n_b and rng.random() < 0.2:
        # the interface is disconnected and connected again (same object) - possibly during a pause - and used further
        tr_ = round(rng.uniform(0.0, tmax), 6)
        gap = rng.choice([0.0, 0.001, 0.05])
        ops.append({"t": tr_, "op": "reconnect", "gap": gap})
        for j in range(rng.choice([1, 2])):
            ops.append({"t": round(tr_ + 0.2 + rng.uniform(0.0, 0.5), 6), "op": "send", "id": 100 + j})
        if rng.random() < 0.6:
            # an indication right before the interface is taken down and one right after it is up again: the spacing holds
            # across the reconnect of the same object
            ops.append({"t": round(max(0.0, tr_ - rng.choice([0.0005, 0.003, 0.015])), 6), "op": "send", "id": 110})
            ops.append({"t": round(tr_ + gap + rng.choice([0.0005, 0.003, 0.01]), 6), "op": "send", "id": 111})
    ops.sort(key=lambda o: o["t"])
    return {"seed": seed, "tier": "S", "config": {"batch": 1 if rng.random() < 0.8 else 3, "lat": 0.001}, "ops": ops}


def run(plan: dict[str, Any]) -> dict[str, Any]:
    from xknx import XKNX
    from xknx.cemi import CEMIFrame
    from xknx.exceptions import CommunicationError
    from xknx.io.routing import Routing
    from xknx.telegram import IndividualAddress

    cfg = plan["config"]
    R = Run(plan, max_time=5000.0)
    loop, net = R.loop, R.net
    cons: list[tuple[int, float, int]] = []       # (n, t, payload id)
    sends: dict[int, dict[str, Any]] = {}
    busy_in: list[tuple[int, float, int]] = []    # delivered busy frames (n, t, wait)
    info: dict[str, Any] = {}

    def pid_of(c):
        if c and not c["group"]:
            return c["dst"] - 0x2000        # point-to-point frames carry their id in the destination address
        return int.from_bytes(c["tpdu"][2:4], "big") if c and len(c["tpdu"]) >= 4 else -1

    tl_of = {o["id"]: o["tl"] for o in plan["ops"] if o["op"] == "send" and o.get("tl")}

    def on_cemi(raw: bytes):
        c = W.parse_cemi_ldata(bytes(raw))
        pid = pid_of(c)
        if raw[0] == W.L_DATA_CON:
            cons.append((R.record("con", "routing", pid), loop.time(), pid))

    async def main():
        xknx = XKNX()
        routing = Routing(xknx, IndividualAddress("1.1.9"), on_cemi, net.local_ip)
        await routing.connect()
        peer = net.mcast_join("10.0.0.7", MCAST[0], MCAST[1], lambda d, s, k: None)
        t0 = loop.time()
        tasks = []

        async def do_send(pid):
            raw = W.cemi_ldata(W.L_DATA_REQ, 0, GA, tpci_apci=W.gv_write(pid.to_bytes(2, "big")))
            if pid in tl_of:
                tp = {"connect": b"\x80", "disconnect": b"\x81", "ack": b"\xc2", "nak": b"\xc3", "data": b"\x43\x00",
                      "individual": b"\x03\x00"}[tl_of[pid]]
                raw = W.cemi_ldata(W.L_DATA_REQ, 0, 0x2000 + pid, group=False, tpci_apci=tp, ctrl1=0xB0)
                R.extra_faults["point_to_point_frame_sent"] += 1
            rec = sends[pid] = {"call": R.record("op_call", "user", pid), "t_call": loop.time(), "out": None}
            try:
                await routing.send_cemi(CEMIFrame.from_knx(raw))
                rec["out"] = "ok"
            except CommunicationError:
                rec["out"] = "comm_error"
            except asyncio.CancelledError:
                rec["out"] = None if info.get("final") else "cancelled"     # the final sweep is not a caller's decision
            rec["ret"] = R.record("op_return", "user", pid)
            rec["t_ret"] = loop.time()

        async def reconnect(gap=0.05):
            await routing.disconnect()
            if gap:
                await asyncio.sleep(gap)
            await routing.connect()
            info["reconnect_at"] = loop.time()      # the flow control starts afresh from here

        def do(op):
            if op["op"] == "send":
                tasks.append(loop.create_task(do_send(op["id"])))
                if "cancel_after" in op:
                    R.extra_faults["send_abandoned_by_caller"] += 1
                    loop.at(loop.time() + op["cancel_after"], tasks[-1].cancel, label="cancel")
            elif op["op"] == "reconnect":
                R.extra_faults["disconnect_and_connect_again"] += 1
                info["reconnect_started"] = loop.time()
                tasks.append(loop.create_task(reconnect(op.get("gap", 0.05))))
            else:
                fr = W.routing_busy(op["wait"])
                if "iters" in op:
                    loop.soon_iters(op["iters"], lambda: peer.sendto(fr, MCAST, lat=0.0, nofault=True))
                else:
                    peer.sendto(fr, MCAST, lat=cfg["lat"], nofault=True)
                R.extra_faults["routing_busy"] += 1

        tl = 0.0
        for op in plan["ops"]:
            loop.at(t0 + op["t"], (lambda o=op: do(o)), label="op")
            tl = max(tl, op["t"])
        await asyncio.sleep(tl + 0.5)
        # busy frames have stopped: everything must drain within the bound
        deadline = loop.time() + 80.0
        while any(not t.done() for t in tasks) and loop.time() < deadline:
            await asyncio.sleep(0.25)
        info["final"] = True
        for t in tasks:
            if not t.done():
                t.cancel()
        await asyncio.gather(*tasks, return_exceptions=True)
        await routing.disconnect()
        await asyncio.sleep(0.05)

    R.execute(main())
    # ---------------------------------------------------------------- oracle
    client_ip = net.local_ip
    inds: list[tuple[int, float, int]] = []
    for (n, t, it, kind, actor, detail) in R.events:
        if kind == "udp_out" and str(actor).startswith(client_ip + ":"):
            sp = W.split(bytes.fromhex(detail))
            if sp and sp[0] == W.ROUTING_IND:
                c = W.parse_cemi_ldata(sp[1])
                inds.append((n, t, pid_of(c)))
        elif kind == "udp_in" and "/m" not in str(actor) and str(actor).endswith(f">{client_ip}:3671"):
            sp = W.split(bytes.fromhex(detail))
            if sp and sp[0] == W.ROUTING_BUSY and len(sp[1]) >= 4:
                busy_in.append((n, t, int.from_bytes(sp[1][2:4], "big")))
    nontrivial = False
    # lower bound: no indication before the end of the pause set by the busy frames received so far
    rc = info.get("reconnect_at")
    for (n, t, pid) in inds:
        if info.get("reconnect_started") is not None and (rc is None or t < rc) and t >= info["reconnect_started"]:
            continue        # sent while the interface was being taken down / brought up again: unjudged
        if rc is not None and t >= rc:
            # disconnect() / connect() starts the flow control afresh: pauses announced before do not bind what is sent after
            # (a busy frame already in flight when the socket was re-opened went to the old socket: not received)
            busy_now = [(nb, tb, w) for (nb, tb, w) in busy_in if tb - plan["config"]["lat"] >= rc - 1e-9]
        else:
            busy_now = busy_in
        end = max([tb + w / 1000.0 for (nb, tb, w) in busy_now if nb < n], default=None)
        if end is not None and t < end - 1e-9:
            setter = max(((tb + w / 1000.0, tb, w) for (nb, tb, w) in busy_now if nb < n))
            same_instant = any(nb < n and abs(tb - t) < 1e-9 for (nb, tb, w) in busy_now)
            R.violate("C27.busy-pause", "sent-during-pause" + (":busy-in-same-instant" if same_instant else ""),
                      f"RoutingIndication {pid} sent at {t:.6f} although a busy frame received at {setter[1]:.6f} announced "
                      f"{setter[2]} ms (pause until {setter[0]:.6f})")
        if any(0 <= t - tb < w / 1000.0 + 0.3 for (nb, tb, w) in busy_in):
            nontrivial = True
    # spacing
    for (n1, t1, p1), (n2, t2, p2) in zip(inds, inds[1:]):
        if t2 - t1 < 0.02 - 1e-9:
            calls = sorted((sends[p]["t_call"], sends[p].get("t_ret", 1e18)) for p in (p1, p2) if p in sends)
            concurrent = len(calls) == 2 and calls[1][0] < calls[0][1]
            R.violate("C27.spacing", "indications<20ms-apart" + (":concurrent-senders" if concurrent else ""),
                      f"RoutingIndications {p1},{p2} sent {t2 - t1:.6f}s apart")
        if t2 - t1 < 0.05:
            nontrivial = True
    # confirmations: exactly one local L_Data.con per returned send
    for pid, rec in sends.items():
        if rec["out"] == "ok":
            k = sum(1 for (n, t, p) in cons if p == pid)
            if k != 1:
                R.violate("C27.confirmation", f"local-confirmations={k}", f"send {pid} returned but produced {k} local L_Data.con")
            s = sum(1 for (n, t, p) in inds if p == pid)
            if s != 1:
                R.violate("C27.confirmation", f"indications-per-send={s}", f"send {pid} returned; {s} RoutingIndications on the wire")
        elif rec["out"] == "cancelled":
            s = sum(1 for (n, t, p) in inds if p == pid and t > rec["t_ret"] + 1e-9)
            if s:
                R.violate("C27.confirmation", "indication-after-abandoned-send",
                          f"send {pid} was abandoned by its caller; {s} RoutingIndications on the wire afterwards")
    # resume: pending sends leave once the pause is over - also after another sender was abandoned while it waited
    if busy_in or any(rec["out"] == "cancelled" for rec in sends.values()):
        last_end = max([tb + w / 1000.0 for (nb, tb, w) in busy_in], default=0.0)
        nb_ = len(busy_in)
        bound = last_end + 0.05 * nb_ + 0.1 * nb_ + 0.02 * (len(sends) + 1) + 0.2
        for pid, rec in sends.items():
            if rec["out"] is None:
                if last_end < 60.0 + 1000.0 + max(o["t"] for o in plan["ops"]):
                    R.violate("C27.resume", "send-never-resumed", f"send {pid} still pending at the end; last pause ended at {last_end:.3f}")
            elif rec["t_ret"] > max(bound, rec["t_call"] + 0.02 * (len(sends) + 1) + 0.2):
                R.violate("C27.resume", "resumed-late", f"send {pid} returned at {rec['t_ret']:.6f}, bound {bound:.6f}")
    abstract = [[(o["op"], o.get("wait"), "res" if "iters" in o else "abs") for o in plan["ops"]], cfg["batch"]]
    return R.result(nontrivial=nontrivial, abstract=abstract)
