"""C17 — Data Secure enforces sequence-number freshness in both directions.

W-DS: a real receiver node (CEMIHandler + DataSecure + TelegramQueue) and 0-2 real
sender nodes on a simulated bus, plus reference devices with independent crypto
and an attacker.  Histories of genuine, replayed (dup), reordered (delay),
forged (corrupt), unknown-sender and lower/equal/higher-counter frames from
several senders; outgoing bursts incl. a node a few numbers below 2^48-1.
Oracle: reference last-valid-counter model (DESIGN B.3).
"""

from __future__ import annotations

import asyncio
import random
from typing import Any

from sim import crypto as C
from sim import dsworld as D
from sim import wire as W
from sim.world import Run

ID = "C17"
LEVEL = "exploration"
RUNS = {"quick": 25000, "thorough": 1800000}
BUDGET = {"quick": 100.0, "thorough": 3300.0}
RULE = ("one run = one seeded history of secured frames from 2-4 senders (real xknx nodes and reference devices) with bus "
        "dup/delay/corrupt faults and attacker frames (replay, lower/equal/higher counter with valid MAC, unknown sender, "
        "valid frame after a failed one), plus outgoing bursts near 2^48-1; non-trivial = at least one stale/forged/unknown "
        "frame reached the receiver; distinct = distinct sequence of (frame class, model verdict)")
REAL = ["xknx.secure.data_secure.DataSecure", "xknx.secure.data_secure_asdu.SecureData", "xknx.cemi.CEMIHandler",
        "xknx.core.TelegramQueue", "xknx.XKNX (receiver and sender nodes)", "xknx.cemi/apci codecs"]
STUB = ["KNXIPInterface of every node (StubInterface) joined by a simulated bus with fault layer", "reference devices and "
        "attacker (sim.crypto, anchored on a real ETS frame)", "loop (SimLoop)", "wall clock seam (initial sequence number)"]
ASSUMPTIONS = ["authenticated-encryption reference pinned to the ETS frame in test/secure_tests/data_secure_test.py"]
MAXSEQ = 0xFFFFFFFFFFFF
GA1, GA2 = W.ga(0, 4, 0), W.ga(0, 4, 3)
RX_IA = W.ia(5, 0, 1)


def preflight():
    return C.anchor_selftest()


def gen(seed: int, tier: str) -> dict[str, Any]:
    rng = random.Random(seed)
    n_real = rng.choice([0, 1, 2])
    n_ref = rng.choice([1, 2])
    senders = []
    for i in range(n_real):
        near_max = rng.random() < 0.25
        senders.append({"kind": "real", "ia": W.ia(4, 0, 10 + i), "start": MAXSEQ - rng.randint(0, 3) if near_max
                        else rng.randrange(1, 2 ** 47),
                        # hand-offs (by ordinal) that fail although the frame went out: e.g. the tunnel lost its ACKs
                        "fail_calls": sorted(rng.sample(range(12), rng.choice([0, 0, 1, 3])))})
    for s_ in senders:
        if rng.random() < 0.25:
            # this node's Data Secure is set up from the keyring (numbers seeded from the clock) and set up again later, as
            # on stop() / start() of the same XKNX object
            s_.update(start=None, kr=True, fail_calls=[])
    for i in range(n_ref):
        senders.append({"kind": "ref", "ia": W.ia(4, 1, 20 + i), "start": rng.choice([1, rng.randrange(1, 2 ** 47), MAXSEQ - 5])})
    ops = []
    t = 0.1
    for i in range(rng.choice([3, 8, 16, 30])):
        t += rng.choice([0.0, 0.001, 0.01, 0.1])
        k = rng.choices(["genuine", "replay", "lower", "equal", "jump", "unknown_sender", "forged", "plain_key_ga"],
                        [10, 3, 2, 2, 2, 1, 2, 1])[0]
        ops.append({"t": round(t, 6), "op": k, "s": rng.randrange(len(senders)), "id": i + 1, "ga": rng.choice([GA1, GA2]),
                    "d": rng.choice([1, 2, 1000, 2 ** 30])})
    for si, s_ in enumerate(senders):
        if s_.get("kr"):
            tr_ = round(rng.uniform(0.2, t + 0.5), 6)
            ops.append({"t": tr_, "op": "restart", "s": si, "id": 900 + si, "ga": GA1, "d": 1})
            for j in range(rng.choice([1, 2, 3])):
                ops.append({"t": round(tr_ + rng.choice([0.0, 0.001, 0.05, 0.5]) + 0.001 * j, 6), "op": "genuine", "s": si,
                            "id": 950 + 10 * si + j, "ga": rng.choice([GA1, GA2]), "d": 1})
    ops.sort(key=lambda o: o["t"])
    policy = None
    if rng.random() < 0.5:
        policy = {"dup": rng.choice([0.0, 0.15]), "delay": rng.choice([0.0, 0.2]), "corrupt": rng.choice([0.0, 0.1]),
                  "drop": rng.choice([0.0, 0.05]), "delays": [0.002, 0.02, 0.2], "dup_delays": [0.0005, 0.05, 0.3]}
    cfg = {"batch": 1}
    if rng.random() < 0.2:
        # the receiver's Data Secure is set up from a Keyring object, and in the middle of the run a second XKNX object of the
        # same process is set up from that same Keyring object
        cfg["shared_keyring"] = round(rng.uniform(0.1, t + 0.3), 6)
    return {"seed": seed, "tier": "S", "config": cfg, "senders": senders, "ops": ops, "fault_policy": policy}


def run(plan: dict[str, Any]) -> dict[str, Any]:
    from xknx.dpt import DPTArray
    from xknx.telegram import GroupAddress, Telegram
    from xknx.telegram.apci import GroupValueWrite

    R = Run(plan, max_time=5000.0)
    loop = R.loop
    rng = random.Random(plan["seed"] ^ 0xC17)
    keys = {GA1: rng.randbytes(16), GA2: rng.randbytes(16)}
    senders = plan["senders"]
    known = {s["ia"]: 0 for s in senders}
    unknown_ia = W.ia(9, 9, 9)
    rx = D.Node(R, "rx", RX_IA, keys, known)
    nodes = [D.Node(R, f"tx{i}", s["ia"], keys, {}, last_seq_sending=s["start"]) if s["kind"] == "real" else None
             for i, s in enumerate(senders)]
    for i, s in enumerate(senders):
        if s.get("kr"):
            nodes[i].restart_data_secure()       # first set-up from the keyring
    shared_kr = None
    keep_alive: list[Any] = []
    if plan["config"].get("shared_keyring") is not None:
        # a real Keyring object (its lists filled in memory instead of from a key file): every sender is known with number 0
        from types import SimpleNamespace
        from xknx.secure.keyring import Keyring
        from xknx.telegram import IndividualAddress
        shared_kr = Keyring()
        shared_kr.group_addresses = [SimpleNamespace(address=GroupAddress(g), decrypted_key=k) for g, k in keys.items()]
        shared_kr.interfaces = [SimpleNamespace(group_addresses={GroupAddress(g): [IndividualAddress(a) for a in known] for g in keys})]
        shared_kr.devices = []
        rx.xknx.cemi_handler.data_secure_init(shared_kr)
        R.extra_faults["receiver_set_up_from_a_keyring_object"] += 1
    restarts: dict[int, list[int]] = {}
    ref_next = {i: s["start"] for i, s in enumerate(senders) if s["kind"] == "ref"}
    bus_log: list[dict[str, Any]] = []      # every frame handed to the receiver, in delivery order, with ground truth
    frames_sent: list[bytes] = []
    wire_out: dict[int, list[int]] = {i: [] for i in range(len(senders))}
    send_errors: dict[int, list[str]] = {}
    ordinal = [0]

    def to_bus(raw_ind: bytes, truth: dict[str, Any]):
        """One frame enters the bus: fault layer decides drop/dup/delay/corrupt, then the receiver gets it."""
        d = R.faults.decide("bus", len(raw_ind))
        if "drop" in d:
            return
        data = raw_ind
        if "corrupt" in d:
            off, bit = d["corrupt"]
            off %= len(data)
            if off in (0, 1, 8):
                off = 9 + off   # message code / additional-info length / NPDU length octets decide parsing, not freshness
            b = bytearray(data)
            b[off % len(b)] ^= 1 << bit
            data = bytes(b)

        def deliver(data=data, truth=truth, corrupted="corrupt" in d):
            bus_log.append(dict(truth, raw=data, corrupted=corrupted, n=R.n + 1))
            rx.stub.deliver(data, "bus")

        loop.after(d["lat"], deliver, label="bus")
        if "dup" in d:
            loop.after(d["lat"] + d["dup"], lambda: deliver(truth=dict(truth, dup=True)), label="bus_dup")
        frames_sent.append(raw_ind)

    async def main():
        await rx.xknx.start()
        for i, n in enumerate(nodes):
            if n is None:
                continue
            await n.xknx.start()

            def on_send(raw, rec, i=i):
                ps = D.parse_secure(raw)
                if ps is None:
                    R.violate("C18.outgoing-secured", "plain-frame-to-keyed-address", raw.hex())
                    return
                wire_out[i].append(ps["seq"])
                to_bus(bytes((W.L_DATA_IND,)) + raw[1:], {"kind": "genuine", "s": i})
            n.stub.on_send = on_send
            fc = set(senders[i].get("fail_calls") or ())
            if fc:
                def pick(raw, j, fc=fc):
                    if j in fc:
                        R.extra_faults["handoff_fails_after_transmission"] += 1
                        return {"lat": 0.002, "out": "comm_error_sent"}
                    return None
                n.stub.pick = pick
        t0 = loop.time()
        if shared_kr is not None:
            def second_object():
                # another XKNX object of the process is configured from the same Keyring object (KNXIPInterface.start() does
                # this on every start); nothing of it may reach the receiver's replay table
                rx2 = D.Node(R, "rx2", W.ia(5, 0, 77), keys, dict(known))
                rx2.xknx.cemi_handler.data_secure_init(shared_kr)
                keep_alive.append(rx2)
                R.extra_faults["second_xknx_object_set_up_from_the_same_keyring_object"] += 1
                # ... and the recordings are played to the receiver once more
                for fr in list(frames_sent)[-6:]:
                    to_bus(fr, {"kind": "replay"})
            loop.at(t0 + plan["config"]["shared_keyring"], second_object, label="op")

        def do(op):
            si = op["s"]
            s = senders[si]
            k = op["op"]
            apdu = D.gv_write_apdu(op["id"].to_bytes(2, "big"))
            if k == "restart":
                restarts.setdefault(si, []).append(len(wire_out[si]))
                nodes[si].restart_data_secure()
                R.extra_faults["data_secure_set_up_again_from_keyring"] += 1
                return
            if k != "genuine":
                R.extra_faults["attack_" + k] += 1
            if k == "genuine":
                if s["kind"] == "real":
                    try:
                        nodes[si].xknx.telegrams.put_nowait(Telegram(
                            destination_address=GroupAddress(op["ga"]),
                            payload=GroupValueWrite(DPTArray(tuple(op["id"].to_bytes(2, "big"))))))
                    except Exception as exc:  # pylint: disable=broad-except
                        send_errors.setdefault(si, []).append(type(exc).__name__)
                else:
                    seq = ref_next[si]
                    if seq > MAXSEQ:
                        return
                    ref_next[si] = seq + 1
                    to_bus(D.secure_frame(keys[op["ga"]], apdu, seq, s["ia"], op["ga"]), {"kind": "genuine", "s": si})
            elif k == "replay":
                if frames_sent:
                    to_bus(rng.choice(frames_sent), {"kind": "replay"})
            elif k in ("lower", "equal", "jump"):
                # attacker with the key: any counter relative to the sender's last used one
                last = (ref_next[si] - 1) if s["kind"] == "ref" else (wire_out[si][-1] if wire_out[si] else (s["start"] or 1))
                seq = {"lower": max(0, last - op["d"]), "equal": last, "jump": min(MAXSEQ, last + op["d"])}[k]
                if k == "jump" and s["kind"] == "ref":
                    ref_next[si] = seq + 1
                to_bus(D.secure_frame(keys[op["ga"]], apdu, seq, s["ia"], op["ga"]), {"kind": k, "s": si})
            elif k == "unknown_sender":
                to_bus(D.secure_frame(keys[op["ga"]], apdu, rng.randrange(1, 2 ** 40), unknown_ia, op["ga"]), {"kind": k})
            elif k == "forged":
                fr = bytearray(D.secure_frame(keys[op["ga"]], apdu, ((ref_next.get(si) or s["start"] or 1) + 5) & MAXSEQ, s["ia"], op["ga"]))
                fr[-1 - rng.randrange(8)] ^= 1 << rng.randrange(8)
                to_bus(bytes(fr), {"kind": k, "s": si})
            elif k == "plain_key_ga":
                to_bus(W.cemi_ldata(W.L_DATA_IND, s["ia"], op["ga"], tpci_apci=apdu), {"kind": k, "s": si})

        tl = 0.0
        for op in plan["ops"]:
            loop.at(t0 + op["t"], (lambda o=op: do(o)), label="op")
            tl = max(tl, op["t"])
        await asyncio.sleep(tl + 8.0)
        for n in nodes:
            if n is not None:
                try:
                    async with asyncio.timeout(30):
                        await n.xknx.stop()
                except TimeoutError:
                    R.violate("C17.exhaustion", "queue-stalled-after-sequence-exhaustion", f"node {n.name} did not stop")
        await rx.xknx.stop()

    R.execute(main())
    # ------------------------------------------------------------------ reference model (B.3)
    last_valid = dict(known)
    expected: list[tuple[int, int, bytes]] = []
    abstract: list[Any] = []
    nontrivial = False
    for f in bus_log:
        ps = D.parse_secure(f["raw"])
        verdict = "reject"
        if ps is None:
            c = W.parse_cemi_ldata(f["raw"])
            verdict = "plain" if c else "garbled"
        else:
            src, dst = ps["src"], ps["dst"]
            key = keys.get(dst) if ps["group"] else None
            apdu = None
            if key is not None and ps["code"] == W.L_DATA_IND and (ps["scf"] & 0x8F) == 0x00 and (ps["scf"] >> 4) & 7 in (0, 1):
                ext = ps["ctrl2"] & 0x0F
                apdu = C.ds_open(key, ps["asdu"], ps["scf"], src, dst, True, ext, ps["tpci_octet"])
            if src not in last_valid:
                verdict = "unknown-sender"
            elif apdu is None:
                verdict = "not-authentic"
            elif not ps["seq"] > last_valid[src]:
                verdict = "stale"
            else:
                verdict = "accept"
                last_valid[src] = ps["seq"]
                expected.append((src, dst, apdu))
        if verdict != "accept":
            nontrivial = True
        abstract.append((f.get("kind"), bool(f.get("dup")), f["corrupted"], verdict))
    got = [(d["src"], d["dst"], d["apdu"]) for d in rx.delivered if d["dst"] in keys]
    if got != expected:
        # classify
        i = 0
        while i < len(got) and i < len(expected) and got[i] == expected[i]:
            i += 1
        g = got[i] if i < len(got) else None
        e = expected[i] if i < len(expected) else None
        if g is not None and (e is None or g not in expected[i:]):
            # what was it? find the bus frame with that payload
            kind = "?"
            for f in bus_log:
                ps = D.parse_secure(f["raw"])
                if ps and ps["src"] == g[0]:
                    kind = f.get("kind", "?") + ("+dup" if f.get("dup") else "")
            R.violate("C17.freshness", "stale-or-unauthentic-frame-delivered",
                      f"delivery #{i} {g[0]:04x}->{g[1]:04x} apdu {g[2].hex()} is not accepted by the reference model (expected {e})")
        else:
            R.violate("C17.failed-does-not-advance", "fresh-frame-not-delivered",
                      f"reference model accepts {e and (hex(e[0]), e[2].hex())} as delivery #{i} but the receiver delivered {g and (hex(g[0]), g[2].hex())}")
    for d in rx.delivered:
        if d["secure"] is not True and d["dst"] in keys:
            R.violate("C15.marked-secure", "delivered-without-data_secure-flag", f"{d}")
    # ------------------------------------------------------------------ outgoing direction
    for i, seqs in wire_out.items():
        for a, b in zip(seqs, seqs[1:]):
            if not b > a:
                R.violate("C17.outgoing-increasing", "sequence-not-increasing", f"node {i}: {a} then {b}")
        for q in seqs:
            if q > MAXSEQ or q < 0:
                R.violate("C17.outgoing-increasing", "sequence-exceeds-48-bit", f"node {i}: {q}")
        s = senders[i]
        if s.get("kr"):
            # numbers seeded from the clock, again at every new set-up: strictly increasing is what is judged (above)
            R.probes["frames_of_nodes_set_up_from_keyring"] += len(seqs)
            continue
        if s["kind"] == "real":
            n_sent_ops = sum(1 for o in plan["ops"] if o["op"] == "genuine" and o["s"] == i)
            room = MAXSEQ - s["start"] + 1
            if n_sent_ops > room:
                R.probes["sequence_exhaustion_reached"] += 1
                if len(seqs) > room:
                    R.violate("C17.exhaustion", "sent-beyond-last-sequence-number", f"node {i}: {len(seqs)} frames, room {room}")
            want = list(range(s["start"], s["start"] + min(n_sent_ops, room)))
            if seqs != want:
                R.violate("C17.outgoing-increasing", "sequence-numbers-not-consecutive-from-start",
                          f"node {i}: wire {seqs[:6]}, expected {want[:6]}")
    R.check_escapes("C17.no-escape")
    return R.result(nontrivial=nontrivial, abstract=abstract)
