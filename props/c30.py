"""C30 — secure routing accepts only authenticated, timely frames.

W-RT secure: a real SecureRouting interface (SecureGroup transport, SecureSequenceTimer)
on the simulated multicast network with peer routers using independent IP Secure crypto
and an attacker: genuine / forged timer notifies (ahead, behind, far ahead),
synchronisation replies (none, one, duplicated, from two peers, forged), wrapped
frames early / within tolerance / too late / forged / wrong key, plain frames of
many service types - under virtual time across several notify periods.
"""

from __future__ import annotations

import asyncio
import random
from typing import Any

from sim import crypto as C
from sim import wire as W
from sim.world import Run

ID = "C30"
HANG_WATCHDOG = True
LEVEL = "exploration"
RUNS = {"quick": 12000, "thorough": 1200000}
BUDGET = {"quick": 100.0, "thorough": 3300.0}
CHUNK = 100
RULE = ("one run = one secure routing session: a seeded synchronisation answer pattern, then timed genuine/forged timer "
        "notifies, wrapped indications with timer offsets around the latency tolerance, plain frames and own sends; "
        "non-trivial = at least one forged / late / plain frame or a non-standard sync answer; distinct = distinct sequence of "
        "(op kind, offset class) and sync pattern")
REAL = ["xknx.io.routing.SecureRouting", "xknx.io.ip_secure.SecureGroup", "xknx.io.ip_secure.SecureSequenceTimer",
        "xknx.io.transport.UDPTransport (multicast)", "xknx.secure.security_primitives", "xknx.knxip codecs"]
STUB = ["peer routers and attacker (harness, sim.crypto)", "multicast network (SimNet)", "random (harness PRNG)", "loop (SimLoop)"]
ASSUMPTIONS = ["independent crypto anchored on AN159 vectors",
               "'forwarded' = the frame reaches a catch-all callback registered on the transport",
               "the local timer is sampled through the public SecureSequenceTimer.current_timer_value() at the delivery instant"]

MCAST = ("224.0.23.12", 3671)
XKNX_SERIAL = bytes.fromhex("0000786b6e78")
PLAIN = [W.ROUTING_IND, W.ROUTING_BUSY, W.ROUTING_LOST, W.TUNNEL_REQ, W.CONNECT_REQ, W.SESSION_REQ, W.SEARCH_REQ, W.SEARCH_RES,
         W.DESCR_REQ, W.DESCR_RES, W.SEARCH_REQ_EXT, W.DISCONNECT_REQ]
DISCOVERY = {W.SEARCH_REQ, W.SEARCH_RES, W.DESCR_REQ, W.DESCR_RES, W.SEARCH_REQ_EXT, W.SEARCH_RES_EXT}
OFFS = [5000, 2000, 1, 0, -50, -99, -101, -500, -999, -1001, -5000]


def preflight():
    return C.anchor_selftest()


def gen(seed: int, tier: str) -> dict[str, Any]:
    rng = random.Random(seed)
    sync = rng.choice(["none", "one", "one", "dup", "two", "forged", "late", "forged_then_one", "one_lower", "one_higher",
                       "one+stale"])
    horizon = rng.choice([5.0, 15.0, 40.0, 90.0])
    ops = []
    n = rng.choice([2, 5, 10, 20])
    for i in range(n):
        k = rng.choices(["wrapped", "wrapped_forged", "wrapped_wrong_key", "notify", "notify_forged", "plain", "send",
                         "wrapped_bad_inner", "wrapped_short_forged"],
                        [6, 2, 1, 3, 2, 3, 4, 2, 1])[0]
        op: dict[str, Any] = {"t": round(rng.uniform(4.0, 4.0 + horizon), 6), "op": k, "id": i + 1}
        if k == "wrapped_bad_inner":
            # authentic and timely, but what is inside is not a well-formed frame (a peer with the key and a bug)
            op["off"] = rng.choice([0, 1, -50])
            op["inner"] = rng.choice(["busy_empty", "ind_short", "lost_empty", "unknown_svc", "bad_header", "search_res_dib0",
                                      "ind_bad_cemi", "empty"])
        if k in ("wrapped", "wrapped_forged", "wrapped_wrong_key", "notify", "notify_forged"):
            op["off"] = rng.choice(OFFS) if k != "notify_forged" else rng.choice([10 ** 6, 10 ** 9, 5000])
        if k in ("wrapped", "notify") and rng.random() < 0.15:
            # an authentic frame from long ago (a recording replayed): half the counter range or more behind
            op["off"] = -rng.choice([2 ** 46, 2 ** 47 - 5, 2 ** 47 + 5, 2 ** 47 + 10 ** 6, 0xD000_0000_0000])
        if k == "wrapped_short_forged":
            # made without the key: timer value far ahead, 0-9 octets where the encrypted frame belongs, random MAC
            op["off"] = rng.choice([10 ** 6, 10 ** 9, 2 ** 40, 5000])
            op["n"] = rng.choice([0, 1, 2, 5, 7, 8, 9])
        if k == "wrapped_forged":
            op["flip"] = rng.randrange(6 * 8, 55 * 8)
        if k == "plain":
            op["svc"] = rng.choice(PLAIN)
        ops.append(op)
    for j in range(rng.choice([0, 0, 1, 2])):
        # a send, an authentic notification slightly behind / ahead of the local timer, and another send a few ms later:
        # the second wrapper must not carry a smaller timer value than the first
        tb = round(rng.uniform(4.0, 4.0 + horizon), 6)
        ops.append({"t": tb, "op": "send", "id": 100 + 3 * j})
        ops.append({"t": round(tb + rng.choice([0.001, 0.004]), 6), "op": rng.choice(["notify", "notify", "wrapped"]), "id": 101 + 3 * j,
                    "off": rng.choice([-20, -60, -90, -99, -400, 30])})
        ops.append({"t": round(tb + rng.choice([0.006, 0.01, 0.03]), 6), "op": "send", "id": 102 + 3 * j})
    if rng.random() < 0.25:
        # unauthentic traffic while the synchronisation request is still unanswered (the first seconds): wrappers and
        # notifications with timer values far ahead - none of it may leave a trace in the timer
        for j in range(rng.choice([1, 2])):
            ops.append({"t": round(rng.uniform(0.02, 2.5), 6), "op": rng.choice(["wrapped_forged", "wrapped_wrong_key", "notify_forged"]),
                        "id": 200 + j, "off": rng.choice([10 ** 6, 2 ** 40, 10 ** 9]), "flip": rng.randrange(60 * 8, 70 * 8)})
    if rng.random() < 0.12:
        # the user sends while the synchronisation request is still unanswered (the transport is up, connect() has not
        # returned yet): that wrapper carries the unsynchronised timer
        ops.append({"t": rng.choice([0.001, 0.004, 0.008]), "op": "early_send", "id": 250})
        ops.append({"t": round(rng.uniform(4.0, 4.0 + horizon), 6), "op": "send", "id": 400})
    if rng.random() < 0.2:
        # the interface is disconnected and connected again (same object); nobody answers the second synchronisation
        tr_ = round(rng.uniform(5.0, 4.0 + horizon), 6)
        ops.append({"t": tr_, "op": "reconnect", "id": 300})
        for j in range(rng.choice([1, 2])):
            ops.append({"t": round(tr_ + 4.5 + rng.uniform(0.0, 3.0), 6), "op": "send", "id": 301 + j})
    shadow = rng.random() < 0.2
    if shadow:
        for j in range(rng.choice([1, 2])):
            ops.append({"t": round(rng.uniform(4.0, 4.0 + horizon), 6), "op": "notify_other_group", "id": 500 + j,
                        "off": rng.choice([10 ** 6, 3_600_000, 10 ** 9])})
    ops.sort(key=lambda o: o["t"])
    return {"seed": seed, "tier": "S" if sync not in ("dup", "one+stale") else "P",
            "config": {"sync": sync, "latency_ms": rng.choice([1000, 1000, 2000, 500]),
                       "batch": 1 if sync not in ("dup", "one+stale") else rng.choice([1, 3, 3]),
                       # (also groups whose timer has run into the upper half of its 48-bit range)
                       "peer_base": rng.choice([5_000, 1_000_000, 2_000_000, 10 ** 9, 2 ** 47 - 10 ** 6, 2 ** 47 + 10 ** 6,
                                                0xE000_0000_0000, 2 ** 48 - 10 ** 10]) if sync != "one+stale" else 10 ** 9,
                       "stale_ahead": rng.choice([1, 5_000, 3_600_000]), "shadow": shadow},
            "ops": ops}


def run(plan: dict[str, Any]) -> dict[str, Any]:
    from xknx import XKNX
    from xknx.cemi import CEMIFrame
    from xknx.exceptions import CommunicationError
    from xknx.io.routing import SecureRouting
    from xknx.telegram import IndividualAddress

    cfg = plan["config"]
    R = Run(plan, max_time=5000.0)
    loop, net = R.loop, R.net
    rng = random.Random(plan["seed"] ^ 0xC30)
    key = rng.randbytes(16)
    tol = cfg["latency_ms"]
    forwarded: list[dict[str, Any]] = []
    samples: dict[int, int] = {}
    values: dict[int, int] = {}
    info: dict[str, Any] = {}
    auth_in: list[tuple[float, int]] = []     # authenticated frames delivered to xknx (t, timer value)
    t_start = loop.time()

    def peer_timer() -> int:
        return cfg["peer_base"] + int((loop.time() - t_start) * 1000)

    key2 = random.Random(plan["seed"] ^ 0x5AD0).randbytes(16)

    async def main():
        routing2 = None
        if cfg.get("shadow"):
            # a second secure routing connection of the same process: another backbone (other key) on the same multicast
            # address, joined first - it sees every datagram before the judged connection does
            routing2 = SecureRouting(XKNX(), IndividualAddress("1.1.9"), lambda raw: None, "10.0.0.9", backbone_key=key2,
                                     latency_ms=cfg["latency_ms"])
            try:
                await routing2.connect()
                R.extra_faults["second_secure_group_with_another_key_in_the_same_process"] += 1
            except CommunicationError:
                routing2 = None
        xknx = XKNX()
        routing = SecureRouting(xknx, IndividualAddress("1.1.8"), lambda raw: None, net.local_ip, backbone_key=key,
                                latency_ms=cfg["latency_ms"])
        timer = routing.transport.secure_timer

        def catch_all(fr, src, tr):
            svc = fr.header.service_type_ident.value
            pid = -1
            if svc == W.ROUTING_IND:
                c = W.parse_cemi_ldata(bytes(fr.body.raw_cemi))
                if c and len(c["tpdu"]) >= 4:
                    pid = int.from_bytes(c["tpdu"][2:4], "big")
            forwarded.append({"svc": svc, "pid": pid, "t": loop.time(), "local": timer.current_timer_value()})
            R.record("forwarded", svc, pid)

        routing.transport.register_callback(catch_all)
        peers = [net.mcast_join("10.0.0.7", MCAST[0], MCAST[1], None), net.mcast_join("10.0.0.8", MCAST[0], MCAST[1], None)]
        sync_state = {"answered": 0}

        def on_peer(pi):
            def handler(data, src, sock):
                if src[0] != net.local_ip:
                    return
                tn = C.timer_notify_verify(key, data)
                if tn is None or tn["serial"] != XKNX_SERIAL:
                    return
                # a sync request (or periodic notify) of xknx: answer according to the plan, only for the first request
                if sync_state["answered"] or pi > 0 and cfg["sync"] != "two":
                    return
                mode = cfg["sync"]
                if pi == 0:
                    sync_state["answered"] = 1

                def reply(value, forged=False, lat=0.01):
                    fr = C.timer_notify(key, value, tn["serial"], tn["tag"])
                    if forged:
                        fr = fr[:-1] + bytes((fr[-1] ^ 1,))
                    else:
                        auth_in.append((loop.time() + lat, value))
                    sock.sendto(fr, MCAST, lat=lat, nofault=True)

                pv = peer_timer()
                if mode == "one":
                    reply(pv)
                elif mode == "one_lower":
                    reply(max(1, pv - 100_000))
                elif mode == "one_higher":
                    reply(pv + 10 ** 7)
                elif mode == "dup":
                    reply(pv)
                    reply(pv)
                elif mode == "two":
                    reply(pv + (0 if pi == 0 else 777), lat=0.01 + 0.002 * pi)
                elif mode == "forged":
                    reply(pv + 10 ** 8, forged=True)
                elif mode == "forged_then_one":
                    reply(pv + 10 ** 8, forged=True, lat=0.005)
                    reply(pv, lat=0.02)
                elif mode == "late":
                    reply(pv, lat=30.0)
                elif mode == "one+stale":
                    # the authentic reply (group timer far ahead of the client's own clock) and, right behind it in the same
                    # burst, a replayed genuine wrapper whose timer value is ahead of the client's unsynchronised clock but
                    # hours behind the group timer
                    reply(pv)
                    stale = timer.current_timer_value() + cfg.get("stale_ahead", 5000)
                    if stale < pv - 10 * tol:
                        ind_ = W.routing_indication(W.cemi_ldata(W.L_DATA_IND, 0x1107, W.ga(1, 1, 2),
                                                                 tpci_apci=W.gv_write((900).to_bytes(2, "big"))))
                        info["stale"] = {"value": stale, "group": pv}
                        R.extra_faults["stale_wrapper_behind_sync_reply"] += 1
                        sock.sendto(C.wrap(key, 0, stale.to_bytes(6, "big"), b"\x00\xfa\x12\x34\x56\x78", b"\x00\x01", ind_),
                                    MCAST, lat=0.01, nofault=True)
            return handler

        for i, p in enumerate(peers):
            p.on_datagram = on_peer(i)
        t0 = loop.time()

        def early(op):
            if op["op"] == "early_send":
                async def send_early():
                    raw_ = W.cemi_ldata(W.L_DATA_REQ, 0, W.ga(1, 1, 1), tpci_apci=W.gv_write(op["id"].to_bytes(2, "big")))
                    try:
                        await routing.send_cemi(CEMIFrame.from_knx(raw_))
                        R.extra_faults["send_before_synchronisation_finished"] += 1
                    except Exception:  # pylint: disable=broad-except
                        R.probes["early_send_refused"] += 1
                info.setdefault("early_tasks", []).append(loop.create_task(send_early()))
                return
            # unauthentic frames while the synchronisation is pending
            ind_ = W.routing_indication(W.cemi_ldata(W.L_DATA_IND, 0x1107, W.ga(1, 1, 2),
                                                     tpci_apci=W.gv_write(op["id"].to_bytes(2, "big"))))
            value = min(2 ** 48 - 1, max(1, timer.current_timer_value() + op["off"]))
            values[op["id"]] = value
            if op["op"] == "notify_forged":
                fr = C.timer_notify(key, value, b"\x00\xfa\x12\x34\x56\x78", b"\x00\x07")
                fr = fr[:-3] + bytes((fr[-3] ^ 0x10,)) + fr[-2:]
            else:
                fr = C.wrap(key if op["op"] != "wrapped_wrong_key" else bytes(16), 0, value.to_bytes(6, "big"),
                            b"\x00\xfa\x12\x34\x56\x78", b"\x00\x07", ind_)
                if op["op"] == "wrapped_forged":
                    b = bytearray(fr)
                    bit = op["flip"] % (len(b) * 8)
                    b[bit // 8] ^= 1 << (bit % 8)
                    fr = bytes(b)
            R.extra_faults["unauthentic_frame_during_synchronisation"] += 1
            peers[0].sendto(fr, MCAST, lat=0.002, nofault=True)

        for op in plan["ops"]:
            if op["id"] >= 200 and op["id"] < 300:
                loop.at(t0 + op["t"], (lambda o=op: early(o)), label="op")
        try:
            await routing.connect()
        except CommunicationError:
            info["connect"] = "failed"
            return
        info["connect_t"] = loop.time() - t0
        info["t0"] = t0
        info["timekeeper_after_sync"] = timer.timekeeper
        tasks = []

        inflight: set[int] = set()
        unjudged: set[int] = info.setdefault("unjudged_sends", set())

        async def do_send(pid):
            raw = W.cemi_ldata(W.L_DATA_REQ, 0, W.ga(1, 1, 1), tpci_apci=W.gv_write(pid.to_bytes(2, "big")))
            if info.get("reconnecting"):
                unjudged.add(pid)
            inflight.add(pid)
            try:
                await routing.send_cemi(CEMIFrame.from_knx(raw))
                info.setdefault("sent_ok", []).append(pid)
            except CommunicationError:
                pass
            finally:
                inflight.discard(pid)

        def do(op):
            k = op["op"]
            lat = 0.002
            pid = op["id"]
            if k == "send":
                tasks.append(loop.create_task(do_send(pid)))
                return
            if k == "reconnect":
                async def reconnect():
                    info["reconnecting"] = True
                    unjudged.update(inflight)      # sends in flight when the interface is taken down may fail
                    await routing.disconnect()
                    await asyncio.sleep(0.05)
                    try:
                        await routing.connect()
                    except CommunicationError:
                        info["reconnect"] = "failed"
                    info["reconnecting"] = False
                R.extra_faults["disconnect_and_connect_again"] += 1
                tasks.append(loop.create_task(reconnect()))
                return
            loop.at(loop.time() + lat, lambda: samples.__setitem__(pid, timer.current_timer_value()))
            ind = W.routing_indication(W.cemi_ldata(W.L_DATA_IND, 0x1107, W.ga(1, 1, 2), tpci_apci=W.gv_write(pid.to_bytes(2, "big"))))
            local_guess = timer.current_timer_value()
            if k == "wrapped_bad_inner":
                value = min(2 ** 48 - 1, max(1, local_guess + op["off"]))
                inner = {"busy_empty": W.frame(W.ROUTING_BUSY, b""), "ind_short": W.frame(W.ROUTING_IND, b"\x29"),
                         "lost_empty": W.frame(W.ROUTING_LOST, b""), "unknown_svc": W.frame(0x0FFF, b"\x01\x02"),
                         "bad_header": bytes((6, 0x20, 0x05, 0x30, 0x00, 0x08, 1, 2)),
                         "search_res_dib0": W.frame(W.SEARCH_RES, W.hpai("10.0.0.7", 3671) + bytes((0x00, 0x02))),
                         "ind_bad_cemi": W.frame(W.ROUTING_IND, bytes((0x29, 0x05, 0x01))), "empty": b""}[op["inner"]]
                fr = C.wrap(key, 0, value.to_bytes(6, "big"), b"\x00\xfa\x12\x34\x56\x78", rng.randbytes(2), inner)
                auth_in.append((loop.time() + lat, value))
                R.extra_faults["authentic_wrapper_with_malformed_inner_frame"] += 1
                peers[0].sendto(fr, MCAST, lat=lat, nofault=True)
            elif k in ("wrapped", "wrapped_forged", "wrapped_wrong_key"):
                value = min(2 ** 48 - 1, max(1, local_guess + op["off"]))
                values[pid] = value
                fr = C.wrap(key if k != "wrapped_wrong_key" else bytes(16), 0, value.to_bytes(6, "big"), b"\x00\xfa\x12\x34\x56\x78",
                            rng.randbytes(2), ind)
                if k == "wrapped_forged":
                    b = bytearray(fr)
                    bit = op["flip"] % (len(b) * 8)
                    b[bit // 8] ^= 1 << (bit % 8)
                    fr = bytes(b)
                elif k == "wrapped":
                    auth_in.append((loop.time() + lat, value))
                else:
                    pass
                if k != "wrapped":
                    R.extra_faults[k] += 1
                peers[0].sendto(fr, MCAST, lat=lat, nofault=True)
            elif k == "wrapped_short_forged":
                value = min(2 ** 48 - 1, max(1, local_guess + op["off"]))
                values[pid] = value
                fr = W.frame(W.SECURE_WRAPPER, b"\x00\x00" + value.to_bytes(6, "big") + b"\x00\xfa\x12\x34\x56\x78"
                             + rng.randbytes(2) + rng.randbytes(op["n"]) + rng.randbytes(16))
                R.extra_faults[k] += 1
                peers[0].sendto(fr, MCAST, lat=lat, nofault=True)
            elif k == "notify_other_group":
                # authentic for the other backbone of this process, far ahead: nothing for the judged connection
                value = min(2 ** 48 - 1, max(1, local_guess + op["off"]))
                R.extra_faults[k] += 1
                peers[0].sendto(C.timer_notify(key2, value, b"\x00\xfa\x12\x34\x56\x79", rng.randbytes(2)), MCAST, lat=lat, nofault=True)
            elif k in ("notify", "notify_forged"):
                value = min(2 ** 48 - 1, max(1, local_guess + op["off"]))
                fr = C.timer_notify(key, value, b"\x00\xfa\x12\x34\x56\x78", rng.randbytes(2))
                if k == "notify_forged":
                    fr = fr[:-3] + bytes((fr[-3] ^ 0x10,)) + fr[-2:]
                    R.extra_faults[k] += 1
                else:
                    auth_in.append((loop.time() + lat, value))
                peers[0].sendto(fr, MCAST, lat=lat, nofault=True)
            elif k == "plain":
                svc = op["svc"]
                if svc == W.ROUTING_IND:
                    fr = ind
                elif svc == W.ROUTING_BUSY:
                    fr = W.routing_busy(50)
                elif svc == W.ROUTING_LOST:
                    fr = W.routing_lost(3)
                elif svc in (W.SEARCH_REQ, W.DESCR_REQ):
                    fr = W.frame(svc, W.hpai("10.0.0.7", 3671))
                elif svc == W.SEARCH_REQ_EXT:
                    fr = W.frame(svc, W.hpai("10.0.0.7", 3671))
                elif svc == W.TUNNEL_REQ:
                    fr = W.tunnelling_request(1, 0, W.cemi_ldata(W.L_DATA_IND, 1, 2))
                elif svc == W.DISCONNECT_REQ:
                    fr = W.disconnect_request(1, W.hpai("10.0.0.7", 3671))
                else:
                    fr = W.frame(svc, W.hpai("10.0.0.7", 3671) + bytes(40))
                R.extra_faults["plain_" + W.SVC_NAMES.get(svc, hex(svc))] += 1
                peers[0].sendto(fr, MCAST, lat=lat, nofault=True)

        for op in plan["ops"]:
            if not 200 <= op["id"] < 300:
                loop.at(t0 + op["t"], (lambda o=op: do(o)), label="op")
        await asyncio.sleep(max([o["t"] for o in plan["ops"]], default=4.0) + 3.0)
        await asyncio.gather(*tasks, return_exceptions=True)
        await routing.disconnect()
        if routing2 is not None:
            await routing2.disconnect()
        await asyncio.sleep(0.1)

    R.execute(main())
    # ---------------------------------------------------------------- oracle
    ops = {o["id"]: o for o in plan["ops"]}
    # plain frames forwarded => discovery / self description
    wrapped_ids = {i for i, o in ops.items() if o["op"] in ("wrapped", "wrapped_forged", "wrapped_wrong_key")}
    plain_ind_ids = {i for i, o in ops.items() if o["op"] == "plain" and o["svc"] == W.ROUTING_IND}
    for f in forwarded:
        if f["svc"] == W.ROUTING_IND and f["pid"] in plain_ind_ids:
            R.violate("C30.plain-only-discovery", "plain-ROUTING_IND-forwarded", f"plain RoutingIndication {f['pid']} forwarded")
        elif f["svc"] not in DISCOVERY and f["svc"] != W.ROUTING_IND:
            # everything else we ever sent un-wrapped
            R.violate("C30.plain-only-discovery", f"plain-{W.SVC_NAMES.get(f['svc'], hex(f['svc']))}-forwarded", "plain non-discovery frame forwarded")
        if f["svc"] == W.ROUTING_IND and f["pid"] in wrapped_ids:
            o = ops[f["pid"]]
            if o["op"] != "wrapped":
                R.violate("C30.authenticated-only", f"{o['op']}-forwarded", f"frame {f['pid']} ({o['op']}) was forwarded")
            else:
                local = samples.get(f["pid"])
                if local is not None and not values[f["pid"]] > local - tol:
                    R.violate("C30.timely-only", "late-wrapper-forwarded",
                              f"wrapper {f['pid']} timer {values[f['pid']]} forwarded although local timer was {local} (tolerance {tol} ms)")
    fwd_ids = {f["pid"] for f in forwarded}
    if "stale" in info and 900 in fwd_ids:
        R.violate("C30.timely-only", "late-wrapper-forwarded:behind-sync-reply",
                  f"wrapper with timer {info['stale']['value']} forwarded although the authenticated group timer received just "
                  f"before it is {info['stale']['group']} (tolerance {tol} ms)")
    for i in wrapped_ids:
        o = ops[i]
        if o["op"] == "wrapped" and i not in fwd_ids and i in samples and i in values and values[i] > samples[i] - tol + 1:
            R.probes["timely_genuine_wrapper_not_forwarded"] += 1
    # outgoing timer values
    client_ip = R.net.local_ip
    outs: list[tuple[float, int, str]] = []
    for (n, t, it, kind, actor, detail) in R.events:
        if kind == "udp_out" and str(actor).startswith(client_ip + ":"):
            raw = bytes.fromhex(detail)
            u = C.unwrap(key, raw)
            if u is not None:
                outs.append((t, u["seq"], "wrapper"))
                again = C.wrap(key, u["session_id"], raw[8:14], u["serial"], u["tag"], u["plain"])
                if again != raw:
                    R.violate("C28.wrapper-conformance", "re-wrap-differs", raw.hex())
                R.probes["outgoing_wrappers_verified"] += 1
                continue
            tn = C.timer_notify_verify(key, raw)
            if tn is not None:
                outs.append((t, tn["timer"], "notify"))
                R.probes["outgoing_notifies_verified"] += 1
                continue
            sp = W.split(raw)
            if sp and sp[0] == W.SECURE_WRAPPER:
                R.violate("C28.wrapper-conformance", "outgoing-wrapper-does-not-verify", raw.hex())
            elif sp and sp[0] == W.TIMER_NOTIFY:
                R.violate("C28.handshake-mac", "outgoing-timer-notify-mac-differs", raw.hex())
            else:
                R.violate("C30.never-plain", "plain-frame-sent", raw.hex())
    wr = [(t, v) for (t, v, k) in outs if k == "wrapper"]
    for (t1, v1), (t2, v2) in zip(wr, wr[1:]):
        if v2 < v1:
            early_first = t1 - info.get("t0", t_start) <= info.get("connect_t", 0.0) + 1e-9
            R.violate("C30.timer-monotone", "outgoing-timer-decreased" + (":first-sent-before-synchronisation-finished" if early_first else ""),
                      f"{v1} at {t1:.3f} then {v2} at {t2:.3f}")
    post = [(t, v) for (t, v, k) in outs if t - info.get("t0", t_start) > info.get("connect_t", 0.0) + 1e-9]
    pre = [(t, v) for (t, v, k) in outs if t - info.get("t0", t_start) <= info.get("connect_t", 0.0) + 1e-9]
    if pre:
        post = [pre[-1]] + post      # the client's own synchronisation request is the baseline for what follows
    for (t1, v1), (t2, v2) in zip(post, post[1:]):
        allowed = v1 + (t2 - t1) * 1000 + 2
        for (ta, va) in auth_in:
            if t1 - 1e-9 <= ta <= t2 + 1e-9:
                allowed = max(allowed, va + (t2 - ta) * 1000 + 2)
        if v2 > allowed:
            R.violate("C30.only-authenticated-move-timer", "timer-jumped-without-authenticated-frame",
                      f"outgoing timer value {v1} at {t1:.3f} then {v2} at {t2:.3f}; largest authenticated value in between allows {allowed:.0f}")
    # an unanswered synchronisation still leads to sending
    if info.get("connect") != "failed":
        rec_t = [o["t"] for o in plan["ops"] if o["op"] == "reconnect"]
        # sends issued while the interface is disconnected / synchronising again may fail - not judged
        want_sent = {o["id"] for o in plan["ops"] if o["op"] == "send"} - set(info.get("unjudged_sends") or ())
        missing = want_sent - set(info.get("sent_ok", []))
        if missing and info.get("reconnect") != "failed":
            R.violate("C30.sends-after-sync", "send-did-not-complete",
                      f"sends {sorted(missing)} of {len(want_sent)} did not complete (sync mode {cfg['sync']})")
        if cfg["sync"] in ("none", "forged", "late") and not info.get("timekeeper_after_sync"):
            R.violate("C30.sends-after-sync", "not-timekeeper-after-unanswered-sync", cfg["sync"])
        if cfg["sync"] in ("forged",) and info.get("connect_t", 9) < 1.0:
            R.violate("C30.authenticated-only", "forged-sync-reply-accepted", f"synchronisation finished after {info.get('connect_t')}s")
    R.check_escapes("C30.no-escape")
    nontrivial = cfg["sync"] not in ("one",) or any(o["op"] in ("wrapped_forged", "wrapped_wrong_key", "notify_forged", "plain")
                                                    or o.get("off", 0) < -tol for o in plan["ops"])
    abstract = [cfg["sync"], [(o["op"], o.get("off"), o.get("svc")) for o in plan["ops"]], cfg["latency_ms"]]
    return R.result(nontrivial=nontrivial, abstract=abstract)
