"""C41 — exposed values respect cooldown and always end up on the bus.

W-RUN: a real ExposeSensor (cooldown c, periodic send p, respond_to_read) in a
started XKNX over the stub interface.  Histories of set(v, skip_unchanged),
initialize_value, incoming reads and external writes on the same address, with
gaps drawn relative to the cooldown.  Oracle (times taken at enqueue): reference
model of the statement's four sentences.
"""

from __future__ import annotations

import asyncio
import random
from typing import Any

from sim import wire as W
from sim.runworld import make_xknx
from sim.world import Run

ID = "C41"
LEVEL = "exploration"
RUNS = {"quick": 40000, "thorough": 3000000}
BUDGET = {"quick": 100.0, "thorough": 3300.0}
RULE = ("one run = one ExposeSensor with seeded cooldown / periodic_send / respond_to_read and a seeded history of set / "
        "skip_unchanged set / initialize_value / read / external write with gaps relative to the cooldown; non-trivial = "
        "at least one set inside a running cooldown or one read; distinct = distinct (config class, op kinds, gap classes)")
REAL = ["xknx.devices.ExposeSensor", "xknx.remote_value.RemoteValueSensor", "xknx.core.TaskRegistry/Task",
        "xknx.core.TelegramQueue", "xknx.cemi.CEMIHandler"]
STUB = ["KNXIPInterface (StubInterface, sends succeed after 2 ms, confirmation 3 ms later)", "loop (SimLoop)"]
ASSUMPTIONS = ["backlog mode (one seed in 10): rate_limit 20 and a burst of other outgoing telegrams longer than the cooldown; only "
               "there the spacing is judged where the telegrams reach the bus (behind the rate limiter) - everywhere else at "
               "creation",
               "value telegrams 'caused by updates' = GroupValueWrite telegrams the sensor enqueues while periodic_send is 0",
               "a skip_unchanged set whose payload equals the last one set is not an update",
               "reads after an external write on the address are unjudged until the next set/initialize (which value is 'most "
               "recent' is then ambiguous)",
               "eventual delivery is judged only when the last operation of the history is an effective set"]
GA = W.ga(6, 1, 1)


def gen(seed: int, tier: str) -> dict[str, Any]:
    rng = random.Random(seed)
    c = rng.choice([0, 0.5, 1.0, 5.0])
    p = rng.choice([0, 0, 0, 2.0, 7.0])
    ref = c if c else 1.0
    n = rng.choice([1, 2, 4, 8, 16])
    ops = []
    t = 0.05
    for i in range(n):
        g = rng.choice(["zero", "tiny", "half", "near-", "eq", "near+", "far"])
        if g == "zero" and ops and ops[-1].get("iters"):
            g = "tiny"      # an operation placed some iterations into its instant must stay the last one of that instant
        t += {"zero": 0.0, "tiny": 0.01, "half": ref / 2, "near-": ref - 0.01, "eq": ref, "near+": ref + 0.01,
              "far": ref * 2.5}[g]
        k = rng.choices(["set", "set_skip", "init", "read", "ext_write", "readd", "init_bad"], [8, 4, 1, 4, 1, 0.8 if c else 0, 1])[0]
        op: dict[str, Any] = {"t": round(t, 6), "op": k, "g": g}
        if g == "eq":
            # exactly one cooldown after the previous operation - the instant the cooldown timer of a telegram sent then
            # expires - and 0..3 loop iterations into that instant (before / after the timer's own callbacks)
            op["iters"] = rng.choice([0, 0, 1, 1, 2, 3])
        if k in ("set", "set_skip", "ext_write"):
            op["v"] = rng.choice([1, 2, 3, rng.randrange(256)])
        if k == "init":
            op["v"] = rng.choice([None, 1, 2, rng.randrange(256)])
        ops.append(op)
    if rng.random() < 0.6:
        t += ref * rng.choice([0.3, 1.2])
        ops.append({"t": round(t, 6), "op": "set", "v": rng.choice([1, 2, 9]), "g": "final"})
    cfg = {"c": c, "p": p, "respond": rng.random() < 0.8, "batch": 1}
    if c == 0 and rng.random() < 0.3 and ops[-1]["op"] in ("set", "set_skip"):
        cfg["stop_at_last"] = True
    cfg["shadow"] = rng.random() < 0.2
    if seed % 10 == 3 and c:
        # the rate limited outgoing queue has a backlog (other devices sending at the same time): the value telegrams leave
        # the queue later than they were created. Updates only, no periodic sending; judged where the telegrams reach the bus
        cfg.update(p=0, rate_limit=20, backlog={"t": round(max(0.0, ops[0]["t"] - rng.choice([0.0, 0.01, 0.2])), 6),
                                                "n": int(20 * c * rng.choice([0.5, 1.5, 2.5]))})
        for o in ops:
            if o["op"] not in ("set", "set_skip"):
                o["op"] = "set"
                o["v"] = rng.choice([1, 2, 3])
    return {"seed": seed, "tier": "S", "config": cfg, "ops": ops}


def run(plan: dict[str, Any]) -> dict[str, Any]:
    from xknx.devices import ExposeSensor
    from xknx.exceptions import ConversionError
    from xknx.telegram import GroupAddress

    cfg = plan["config"]
    c, p = cfg["c"], cfg["p"]
    R = Run(plan, max_time=100000.0)
    loop = R.loop
    xknx, stub, q = make_xknx(R, rate_limit=cfg.get("rate_limit", 0))
    bus_w: list[tuple[float, int]] = []          # (t_processed, payload) of GroupValueWrite telegrams of the sensor on the bus
    puts: list[tuple[float, str, int]] = []      # (t, "write"|"response", payload)
    bus: list[tuple[float, int]] = []            # (t_processed, payload) of value telegrams seen on the bus for GA
    orig_put = q.put_nowait

    def put(item):
        if item is not None and item.destination_address == GroupAddress(GA) and item.direction.name == "OUTGOING":
            nm = type(item.payload).__name__
            if nm in ("GroupValueWrite", "GroupValueResponse"):
                puts.append((loop.time(), "write" if nm == "GroupValueWrite" else "response", item.payload.value.value[0]))
        return orig_put(item)

    q.put_nowait = put
    info: dict[str, Any] = {}

    def seen(tg):
        nm = type(tg.payload).__name__
        if nm in ("GroupValueWrite", "GroupValueResponse"):
            bus.append((loop.time(), tg.payload.value.value[0]))
            if nm == "GroupValueWrite" and tg.direction.name == "OUTGOING":
                bus_w.append((loop.time(), tg.payload.value.value[0]))

    async def main():
        dev = ExposeSensor(xknx, "ex", group_address=GroupAddress(GA), value_type="percentU8", cooldown=c,
                           periodic_send=p, respond_to_read=cfg["respond"])
        xknx.devices.async_add(dev)
        dev2 = None
        if cfg.get("shadow"):
            # a second sensor of the same name (names need not be unique) on another address, updated right behind the judged one
            dev2 = ExposeSensor(xknx, "ex", group_address=GroupAddress(GA + 8), value_type="percentU8", cooldown=c,
                                periodic_send=p, respond_to_read=cfg["respond"])
            xknx.devices.async_add(dev2)
            R.extra_faults["second_sensor_of_the_same_name"] += 1
        xknx.telegram_queue.register_telegram_received_cb(seen, group_addresses=[GroupAddress(GA)], match_for_outgoing=True)
        await xknx.start()
        t0 = loop.time()
        info["t0"] = t0

        async def do(op):
            k = op["op"]
            R.record("op", k, op.get("v"))
            if k == "set":
                await dev.set(op["v"])
                if dev2 is not None:
                    await dev2.set((op["v"] + 1) & 0xFF)
            elif k == "set_skip":
                await dev.set(op["v"], skip_unchanged=True)
                if dev2 is not None:
                    await dev2.set((op["v"] + 1) & 0xFF)
            elif k == "init":
                dev.initialize_value(op["v"])
            elif k == "init_bad":
                # a value the type rejects: raises and changes nothing - a value waiting for the cooldown stays pending
                try:
                    dev.initialize_value("not a number")
                    R.probes["invalid_initial_value_not_rejected"] += 1
                except ConversionError:
                    R.extra_faults["initialize_value_rejected"] += 1
            elif k == "read":
                stub.deliver(W.cemi_ldata(W.L_DATA_IND, 0x1108, GA, tpci_apci=W.gv_read()), "read")
            elif k == "ext_write":
                stub.deliver(W.cemi_ldata(W.L_DATA_IND, 0x1108, GA, tpci_apci=W.gv_write(bytes((op["v"],)))), "ext")
            elif k == "readd":
                # the device is removed from the registry and added again (as XKNX.stop()/start() does with its tasks): what
                # was pending is gone, but from here on it is the same sensor with the same cooldown
                xknx.devices.async_remove(dev)
                xknx.devices.async_add(dev)
                R.extra_faults["device_removed_and_added_again"] += 1

        def run_now(coro):
            try:
                coro.send(None)
            except StopIteration:
                return
            raise RuntimeError("operation suspended")    # none of the operations awaits anything that suspends

        if cfg.get("backlog"):
            from xknx.dpt import DPTBinary
            from xknx.telegram import Telegram
            from xknx.telegram.apci import GroupValueWrite

            def burst():
                for j in range(cfg["backlog"]["n"]):
                    xknx.telegrams.put_nowait(Telegram(destination_address=GroupAddress(GA + 1 + (j & 3)),
                                                       payload=GroupValueWrite(DPTBinary(j & 1))))
                R.extra_faults["outgoing_queue_backlog"] += 1
            loop.at(t0 + cfg["backlog"]["t"], burst, label="op")
        ref_ = c if c else 1.0
        when_prev = None
        for op in plan["ops"]:
            when = t0 + op["t"]
            if op.get("g") == "eq" and when_prev is not None:
                when = when_prev + ref_      # the very float the library computes for its timer (time of the send + cooldown)
            if when_prev is not None and when < when_prev:
                when = when_prev             # plan order is execution order (the two sums may differ by an ulp)
            when_prev = when
            if op.get("iters"):
                # the operation runs inside a callback of that loop iteration (as the continuation of a user coroutine woken
                # up then would), not as the first step of a new task one iteration later
                loop.at(when, (lambda o=op: loop.soon_iters(o["iters"], lambda: run_now(do(o)), label="op")), label="op")
            else:
                loop.at(when, (lambda o=op: loop.create_task(do(o))), label="op")
        if cfg.get("stop_at_last"):
            # XKNX.stop() is called right behind the last update, while its telegram is still queued
            await asyncio.sleep(plan["ops"][-1]["t"] + 1e-4)
            R.extra_faults["stopped_right_behind_the_last_update"] += 1
        else:
            await asyncio.sleep(plan["ops"][-1]["t"] + max(c, p, 1.0) * 3 + 1.0 + (cfg["backlog"]["n"] / 20.0 if cfg.get("backlog") else 0.0))
        await xknx.stop()

    R.execute(main())
    t0 = info.get("t0", 1000.0)
    ops = plan["ops"]
    eps = 1e-6
    nontrivial = False
    # ---- reference: most recent set/initialised payload over time, effective sets
    cur: Any = None            # most recent set / initialised value (payload int) or None
    ambiguous = False          # an external write happened since the last set/init
    effective: list[tuple[float, int]] = []
    eff_idx: set[int] = set()
    last_set_t = -1.0
    eff_last_i = -1            # index of the operation that made the last entry of `effective`
    for oi, op in enumerate(ops):
        k = op["op"]
        t = t0 + op["t"]
        if k == "set":
            cur = op["v"]
            ambiguous = False
            last_set_t = t
            effective.append((t, op["v"]))
            eff_last_i = oi
        elif k == "set_skip":
            if cur is None or cur != op["v"]:
                effective.append((t, op["v"]))          # differs from the last one set: must not be swallowed
                eff_idx.add(id(op))
                eff_last_i = oi
            cur = op["v"]
            ambiguous = False
            last_set_t = t
        elif k == "init":
            cur = op["v"]
            # a telegram of the sensor still in flight (queued, not yet processed) overrides the initialised value afterwards
            ambiguous = any(0 <= t - tp < 0.02 for (tp, kind, pl) in puts) or any(
                o["op"] == "ext_write" and 0 <= op["t"] - o["t"] < 0.02 for o in ops)
        elif k == "ext_write":
            ambiguous = True
        elif k == "read":
            nontrivial = True
            if any(o is not op and abs(o["t"] - op["t"]) < 1e-3 for o in ops):
                # the read is processed through the queue; an operation in the same instant may land on either side
                R.probes["read_coinciding_with_another_op(unjudged)"] += 1
                continue
            resp = [(tp, pl) for (tp, kind, pl) in puts if kind == "response" and abs(tp - t) < eps]
            if not cfg["respond"]:
                if resp:
                    R.violate("C41.read", "answered-although-respond_to_read-off", f"read at {op['t']}: {resp}")
            elif ambiguous:
                R.probes["read_after_external_write(unjudged)"] += 1
            elif cur is None:
                if resp:
                    R.violate("C41.read", "answered-without-value", f"read at {op['t']} answered {resp} but no value was set")
            else:
                if not resp:
                    R.violate("C41.read", "read-not-answered-at-once", f"read at {op['t']}: most recent value {cur}, no response queued at that instant")
                elif resp[0][1] != cur:
                    R.violate("C41.read", "read-answered-with-stale-value", f"read at {op['t']}: answered {resp[0][1]}, most recent value {cur}")
    # ---- cooldown spacing (only without periodic sending)
    readds = [t0 + o["t"] for o in ops if o["op"] == "readd"]

    def readd_in(a, b):
        return any(a - 1e-6 <= tr <= b + 1e-6 for tr in readds)

    writes = [(tp, pl) for (tp, kind, pl) in puts if kind == "write"]
    if c and not p:
        for (t1, p1), (t2, p2) in zip(writes, writes[1:]):
            if readd_in(t1, t2):
                continue      # removal drops the running cooldown: spacing is judged within one registration only
            if t2 - t1 < c - 1e-9:
                R.violate("C41.cooldown", "writes-closer-than-cooldown",
                          f"value telegrams queued at {t1 - t0:.6f} ({p1}) and {t2 - t0:.6f} ({p2}), cooldown {c}")
        if len(writes) >= 2:
            nontrivial = True
    if cfg.get("backlog"):
        # where the telegrams reach the bus (behind the rate limiter): still at least the cooldown apart
        for (t1, p1), (t2, p2) in zip(bus_w, bus_w[1:]):
            if t2 - t1 < c - 1e-9:
                R.violate("C41.cooldown", "on-bus-closer-than-cooldown:outgoing-queue-backlog",
                          f"value telegrams reached the bus at {t1 - t0:.6f} ({p1}) and {t2 - t0:.6f} ({p2}), cooldown {c}; "
                          f"created at {[round(tp - t0, 6) for (tp, kind, pl) in puts]}")
        R.check_escapes("C41.no-escape")
        return R.result(nontrivial=len(bus_w) >= 2, abstract=[("backlog", bool(c)), [(o["op"], o["g"]) for o in ops]])

    def deemed_values(limit):
        """Values that may count as 'last on the bus' at `limit` (initialize_value counts as sent; entries closer
        than 20 ms to each other are order-ambiguous)."""
        merged = sorted([e for e in bus if e[0] <= limit] +
                        [(t0 + o["t"], o["v"]) for o in ops if o["op"] == "init" and t0 + o["t"] <= limit],
                        key=lambda e: e[0])
        if not merged:
            return set()
        out = {merged[-1][1]}
        for e in reversed(merged[:-1]):
            if merged[-1][0] - e[0] < 0.02:
                out.add(e[1])
            else:
                break
        return out

    def ext_near(t_set):
        return any(o["op"] == "ext_write" and t_set - 0.05 <= t0 + o["t"] <= t_set + c + 0.05 for o in ops)

    # ---- every effective set ends up on the bus (judged for the final operation only)
    last = ops[-1]
    if last["op"] in ("set", "set_skip") and effective and eff_last_i == len(ops) - 1:
        t_set, v = effective[-1]
        deadline = t_set + c + 1e-6
        if readd_in(t_set - c - 0.02, deadline):
            last = {"op": "unjudged"}       # a removal around it may have dropped the pending value
        sent = [(tp, kind) for (tp, kind, pl) in puts if pl == v and t_set - eps <= tp <= deadline]
        # initialize_value() documents its value as "treated as if it had been sent": it counts as the bus value
        if last["op"] != "unjudged" and not sent and v not in deemed_values(deadline + 0.02) and not ext_near(t_set):
            R.violate("C41.eventual-delivery", "last-set-value-never-sent",
                      f"set({v}) at {last['t']} (cooldown {c}): nothing with that payload queued by {deadline - t0:.6f}; "
                      f"queued {[(round(tp - t0, 6), kind, pl) for (tp, kind, pl) in puts][-5:]}, bus {bus[-3:]}")
        if last["op"] == "set_skip":
            R.probes["final_skip_unchanged_set_with_new_value"] += 1
    # ---- skip_unchanged never swallows a differing payload (any position, judged when nothing interferes before c passes)
    for i, op in enumerate(ops):
        if op["op"] == "set_skip" and id(op) in eff_idx:
            t_set = t0 + op["t"]
            nxt = t0 + ops[i + 1]["t"] if i + 1 < len(ops) else None
            if nxt is not None and nxt <= t_set + c + 0.02:
                continue   # a later operation may legitimately supersede it
            if readd_in(t_set - c - 0.02, t_set + c + 0.02):
                continue
            got = [pl for (tp, kind, pl) in puts if pl == op["v"] and t_set - eps <= tp <= t_set + c + 1e-6]
            if not got and op["v"] not in deemed_values(t_set + c + 0.02) and not ext_near(t_set):
                R.violate("C41.skip-unchanged", "differing-value-swallowed",
                          f"set({op['v']}, skip_unchanged=True) at {op['t']} differs from the last value set but was never sent")
            nontrivial = True
    R.extra_faults["external_write"] += sum(1 for o in ops if o["op"] == "ext_write")
    # every value telegram the sensor created went out (the stub interface accepts all): each of them is dispatched to the
    # devices and the outgoing callbacks, also the one still queued when XKNX.stop() is called
    w_put = sorted(v for (t, kind, v) in puts if kind == "write")
    w_seen = sorted(v for (t, v) in bus_w)
    if w_put != w_seen:
        R.violate("C41.dispatch", "value-telegram-not-dispatched",
                  f"value telegrams created {len(w_put)}, dispatched to the outgoing callbacks {len(w_seen)}"
                  + (" (stop() right behind the last update)" if cfg.get("stop_at_last") else ""))
    R.check_escapes("C41.no-escape")
    abstract = [(bool(c), bool(p), cfg["respond"]), [(o["op"], o["g"]) for o in ops]]
    return R.result(nontrivial=nontrivial, abstract=abstract)
