"""C19 — Data Secure output conforms to the KNX CCM construction (piggy-backed, limited input space).

Honest note: inputs-only quantifier; the simulator contributes the reference
peer.  The reference (sim.crypto) is independent code pinned to a frame captured
from a real ETS installation.  Oracle: every secured frame a real node puts on the
wire is recomputed by the reference from (key, plain APDU known to the harness,
header fields and counter read from the wire) and must be byte-equal; the same
for the public SecureData.init_from_plain_apdu over a wider input space; every
encrypted frame the reference produces (all APDU lengths) is accepted per C15.
"""

from __future__ import annotations

import asyncio
import random
from typing import Any

from sim import crypto as C
from sim import dsworld as D
from sim import wire as W
from sim.world import Run

ID = "C19"
LEVEL = "exploration"
RUNS = {"quick": 12000, "thorough": 1200000}
BUDGET = {"quick": 100.0, "thorough": 3300.0}
RULE = ("run i = 10 telegrams sent by a real node to keyed addresses (APDU lengths cycling 2..240 by index, "
        "write/response/read, random keys/addresses/counters) + 10 direct init_from_plain_apdu calls over address types, "
        "frame formats, TPCI values, SCF values and APDU lengths 0..240 + 4 reference-made frames fed to a real receiver; "
        "non-trivial = all compared byte-equal; distinct = distinct (path, algorithm, APDU length, address type, format)")
REAL = ["xknx.secure.data_secure.DataSecure.outgoing_cemi (public send path)", "xknx.secure.data_secure_asdu.SecureData / block_0 / "
        "counter_0", "xknx.secure.security_primitives", "xknx.cemi.CEMIFrame codec", "xknx.cemi.CEMIHandler (receiver)"]
STUB = ["reference implementation (sim.crypto)", "KNXIPInterface stubs", "loop (SimLoop)"]
ASSUMPTIONS = ["block 0 carries the transport control octet as transmitted (its six TPCI bits in place) or'ed with the two high bits of "
               "the secure APCI - the only reading under which the octet is defined for every TPCI value; a real-world vector "
               "exists for TPCI 0 only",
               "verdict is for authenticated encryption (anchored on a real ETS frame); for the authentication-only algorithm no "
               "real-world vector exists in the tree, so a difference there is reported as a probe, not a violation",
               "emission through the running system is exercised for what it emits: group destination, encryption, T_Data_Group"]


def preflight():
    return C.anchor_selftest()


def gen_index(i: int, seed: int, tier: str) -> dict[str, Any]:
    return {"seed": seed, "tier": "S", "config": {"i": i, "batch": 1}, "ops": []}


def gen(seed, tier):
    return gen_index(seed % 997, seed, tier)


def run(plan: dict[str, Any]) -> dict[str, Any]:
    from xknx.cemi.flags import CEMIAddressType, CEMIFrameFormat
    from xknx.dpt import DPTArray, DPTBinary
    from xknx.secure.data_secure_asdu import SecureData, SecurityControlField
    from xknx.telegram import GroupAddress, IndividualAddress, Telegram
    from xknx.telegram.apci import GroupValueRead, GroupValueResponse, GroupValueWrite
    from xknx.telegram.tpci import TDataGroup, TPCI

    i = plan["config"]["i"]
    R = Run(plan, max_time=5000.0)
    loop = R.loop
    rng = random.Random(plan["seed"] ^ 0xC19)
    gas = rng.sample(range(1, 0xFFFF), 2)
    keys = {g: rng.randbytes(16) for g in gas}
    ia = rng.randrange(0x1001, 0xFFFE)
    ref_ia = (ia % 0xFFF0) + 3
    start = rng.randrange(1, 2 ** 48 - 1000)
    tx = D.Node(R, "tx", ia, keys, {}, last_seq_sending=start)
    rx = D.Node(R, "rx", 0x5001, keys, {ref_ia: 0})
    expected_apdus: list[tuple[int, bytes]] = []
    wire: list[bytes] = []
    abstract: list[Any] = []
    compared = [0]
    ia2, ia3 = (ia % 0xFFF0) + 5, (ia % 0xFFF0) + 7
    switch_at = rng.choice([None, None, 3, 5, 8])
    srcs = [ia]

    async def main():
        await tx.xknx.start()
        await rx.xknx.start()
        tx.stub.on_send = lambda raw, rec: wire.append(raw)
        for j in range(10):
            ln = 2 + ((i * 10 + j) % 239)
            dst = rng.choice(gas)
            kind = rng.choice(["write", "response", "read"]) if ln == 2 else rng.choice(["write", "response"])
            if kind == "read":
                apdu, payload = bytes((0x00, 0x00)), GroupValueRead()
            elif ln == 2:
                v = rng.randrange(64)
                head = 0x80 if kind == "write" else 0x40
                apdu = bytes((0x00, head | v))
                payload = (GroupValueWrite if kind == "write" else GroupValueResponse)(DPTBinary(v))
            else:
                data = rng.randbytes(ln - 2)
                apdu = bytes((0x00, 0x80 if kind == "write" else 0x40)) + data
                payload = (GroupValueWrite if kind == "write" else GroupValueResponse)(DPTArray(tuple(data)))
            expected_apdus.append((dst, apdu))
            if j == switch_at:
                # the interface got another individual address (tunnel re-established, gateway assigned a different one):
                # the same Data Secure object goes on sending, now from that address
                await asyncio.sleep(1.0)
                tx.xknx.current_address = IndividualAddress(ia2)
                srcs.append(ia2)
                R.extra_faults["own_address_changed_between_frames"] += 1
            src_ = None
            if rng.random() < 0.15:
                src_ = rng.choice([ia, ia2, ia3])     # a telegram that names its source itself
                srcs.append(src_)
            tx.xknx.telegrams.put_nowait(Telegram(destination_address=GroupAddress(dst), payload=payload,
                                                  **({"source_address": IndividualAddress(src_)} if src_ else {})))
            abstract.append(("send", kind, ln))
        await asyncio.sleep(2.0)
        # reference-made frames of this run's lengths are accepted by a real receiver
        seq = rng.randrange(1, 2 ** 40)
        for j in range(4):
            ln = 2 + ((i * 4 + j * 61) % 239)
            seq += rng.randint(1, 99)
            dst = rng.choice(gas)
            apdu = bytes((0x00, 0x80)) + rng.randbytes(ln - 2) if ln > 2 else bytes((0x00, 0x81))
            n0 = len(rx.delivered)
            rx.stub.deliver(D.secure_frame(keys[dst], apdu, seq, ref_ia, dst), "ref")
            await asyncio.sleep(0.01)
            got = rx.delivered[n0:]
            if len(got) != 1 or got[0]["apdu"] != apdu or got[0]["secure"] is not True:
                R.violate("C19.reference-frames-accepted", "reference-frame-not-accepted",
                          f"APDU length {ln}: delivered {[g['apdu'].hex()[:20] for g in got]}")
            abstract.append(("ref->rx", ln))
        await tx.xknx.stop()
        await rx.xknx.stop()

    R.execute(main())
    # ---- frames put on the wire by the running node
    if len(wire) != len(expected_apdus):
        R.violate("C19.conformance", "frame-count", f"{len(expected_apdus)} telegrams queued, {len(wire)} frames on the wire")
    prev_seq = None
    for raw, (dst, apdu) in zip(wire, expected_apdus):
        ps = D.parse_secure(raw)
        if ps is None:
            R.violate("C19.conformance", "not-a-secure-apdu", raw.hex())
            continue
        ext = ps["ctrl2"] & 0x0F
        want = C.ds_secure(keys[dst], apdu, ps["scf"], ps["seq"], ps["src"], ps["dst"], ps["group"], ext, ps["tpci_octet"])
        compared[0] += 1
        if ps["asdu"] != want:
            R.violate("C19.conformance", "wire-bytes!=reference",
                      f"APDU {apdu.hex()[:24]} len {len(apdu)} seq {ps['seq']}: wire {ps['asdu'].hex()[:60]} reference {want.hex()[:60]}")
        if ps["src"] not in srcs or ps["dst"] != dst or ps["scf"] != 0x10:
            R.violate("C19.conformance", "header-fields", f"src {ps['src']:04x} dst {ps['dst']:04x} scf {ps['scf']:02x}")
        if ps["len"] != len(ps["tpdu"]) - 1:
            R.violate("C19.conformance", "npdu-length-octet", raw.hex())
        long_frame = len(ps["tpdu"]) - 1 > 15
        if bool(ps["ctrl1"] & 0x80) == long_frame:
            R.violate("C19.conformance", "frame-type-flag", f"NPDU {len(ps['tpdu']) - 1} octets, Ctrl1 {ps['ctrl1']:02x}")
    # ---- the public primitive over a wider input space
    prev_in = (0, 0, 0)
    for j in range(10):
        algo = rng.choice([0, 1])
        scf = (algo << 4) | rng.choice([0, 0, 0, 0x80, 0x08, 0x02, 0x03])
        ln = rng.choice([0, 1, 2, 3, 14, 15, 16, 17, 240]) if rng.random() < 0.5 else rng.randint(0, 240)
        apdu = rng.randbytes(ln)
        group = rng.random() < 0.7
        ext = rng.choice([0, 0, 0, 1, 4, 7, 15])
        seq = rng.randrange(0, 2 ** 48)
        src, dst = rng.randrange(0x10000), rng.randrange(0x10000)
        # consecutive frames often share one of their inputs: the same sequence number under other addresses (two senders
        # at the same counter value), or the same addresses under another number
        r_ = rng.random()
        if j and r_ < 0.35:
            seq = prev_in[0]
        elif j and r_ < 0.55:
            src, dst = prev_in[1], prev_in[2]
        prev_in = (seq, src, dst)
        tp = rng.choice([0x00, 0x04, 0x40, 0x44, 0x7C]) if not group else rng.choice([0x00, 0x04])
        try:
            tpci = TPCI.resolve(tp, dst_is_group_address=group, dst_is_zero=dst == 0)
        except Exception:  # pylint: disable=broad-except
            tpci = TDataGroup()
            tp = 0
        ff = CEMIFrameFormat(ext) if ext in (0, 4, 5, 6, 7) else CEMIFrameFormat.STANDARD
        if rng.random() < 0.25:
            # a call that fails half way (a key table entry of a wrong length) must leave nothing behind for the next frame
            try:
                SecureData.init_from_plain_apdu(
                    key=rng.randbytes(rng.choice([0, 15, 17, 33])), apdu=apdu, scf=SecurityControlField.from_knx(scf),
                    sequence_number=seq, address_fields_raw=src.to_bytes(2, "big") + dst.to_bytes(2, "big"),
                    address_type=CEMIAddressType.GROUP if group else CEMIAddressType.INDIVIDUAL, frame_format=ff, tpci=tpci)
            except Exception:  # pylint: disable=broad-except
                R.extra_faults["primitive_call_failed_before_this_frame"] += 1
        try:
            sd = SecureData.init_from_plain_apdu(
                key=keys[gas[0]], apdu=apdu, scf=SecurityControlField.from_knx(scf), sequence_number=seq,
                address_fields_raw=src.to_bytes(2, "big") + dst.to_bytes(2, "big"),
                address_type=CEMIAddressType.GROUP if group else CEMIAddressType.INDIVIDUAL,
                frame_format=ff, tpci=tpci)
        except Exception as exc:  # pylint: disable=broad-except
            # the primitive is defined for every TPCI value the type system lets in
            R.violate("C19.conformance", f"init_from_plain_apdu-raised:{type(exc).__name__}",
                      f"scf {scf:02x} len {ln} group {group} tpci {tp:02x}: {exc!r}")
            continue
        ext_used = int(ff)   # the value the caller handed to the primitive
        want = C.ds_secure(keys[gas[0]], apdu, scf, seq, src, dst, group, ext_used, _tp_octet(tpci))
        compared[0] += 1
        if tp != 0:
            R.probes["nonzero_tpci_compared"] += 1
        if sd.to_knx() != want:
            if algo == 1:
                R.violate("C19.conformance", "init_from_plain_apdu!=reference",
                          f"scf {scf:02x} len {ln} group {group} ext {ext_used} tpci {tp:02x}: {sd.to_knx().hex()[:60]} vs {want.hex()[:60]}")
            else:
                R.probes["auth_only_differs_from_unanchored_reference"] += 1
        abstract.append(("prim", algo, ln, group, ext_used, tp))
    R.check_escapes("C19.no-escape")
    R.probes["frames_compared"] += compared[0]
    return R.result(nontrivial=not R.violations and compared[0] > 0, abstract=abstract)


def _tp_octet(tpci) -> int:
    """TPCI octet (upper six bits) as the reference expects it, derived from the xknx TPCI object's own serialisation."""
    return tpci.to_knx() & 0xFC
