"""C18 — secured group addresses never take plain data, and bad frames never crash.

W-DS: plain and secured frames to keyed and unkeyed group addresses, S-A_Sync
services, tool-access / system-broadcast flags, secured point-to-point, unknown
keys, and *authenticated frames whose decrypted content is malformed* (the
reference device encrypts: empty APDU, one octet, truncated / over-long forms of
each APCI family, unsupported services).  Outgoing: device setters and raw
telegrams to keyed addresses from a real node.
"""

from __future__ import annotations

import asyncio
import random
from typing import Any

from sim import crypto as C
from sim import e2e as E
from sim import dsworld as D
from sim import wire as W
from sim.world import Run

ID = "C18"
LEVEL = "exploration"
RUNS = {"quick": 20000, "thorough": 1800000}
BUDGET = {"quick": 100.0, "thorough": 3300.0}
RULE = ("one run = ~20 frames drawn from {plain->keyed, plain->unkeyed, secured->keyed, secured->unkeyed, S-A_Sync, tool "
        "access, system broadcast, secured point-to-point, unknown key, authenticated frame with malformed inner APDU of a "
        "seeded class} delivered to a real receiver, plus outgoing telegrams (device setter / raw) to keyed and unkeyed "
        "addresses from a real node; non-trivial = at least one plain->keyed or malformed-inner frame; distinct = distinct "
        "sequence of frame classes")
REAL = ["xknx.cemi.CEMIHandler", "xknx.secure.data_secure.DataSecure", "xknx.core.TelegramQueue (callbacks, key-issue callbacks)",
        "xknx.devices.Switch", "xknx.telegram.apci.APCI.from_knx", "xknx.cemi.CEMIFrame codec"]
STUB = ["KNXIPInterface stubs + bus (hand-offs may fail after the frame went out)",
        "reference device (sim.crypto) encrypting arbitrary inner content and opening every outgoing secured frame as a peer "
        "with a replay table", "loop (SimLoop)"]
REAL = REAL + ["whole-stack mode (1 run in 10): " + ", ".join(E.REAL) + ", KNXIPInterface start/stop setting up Data Secure from the keyring"]
STUB = STUB + ["whole-stack mode: " + ", ".join(E.STUB) + ", keyring (stand-in answering DataSecure.init_from_keyring)"]
ASSUMPTIONS = ["whole-stack mode: plain and genuine secured group writes to a keyed address through a real tunnel, also while the "
               "same XKNX object is stopped (waiting for its DisconnectResponse) and started again",
               "inner APDU classes sampled from the APCI families of xknx/telegram/apci.py (short, truncated, over-long, unknown)"]

APCI_HEADS = [0x0000, 0x0040, 0x0080, 0x00C0, 0x0100, 0x0140, 0x0180, 0x01C0, 0x01C8, 0x01C9, 0x01CA, 0x01CC, 0x01CD, 0x01CE,
              0x01CF, 0x0200, 0x0240, 0x0280, 0x02C0, 0x02C1, 0x02C2, 0x02C7, 0x02C8, 0x02D1, 0x02D2, 0x02D3, 0x02D4, 0x02D5,
              0x02D6, 0x02D7, 0x02D8, 0x02DC, 0x02DD, 0x02DE, 0x02DF, 0x02E0, 0x02E1, 0x0300, 0x0340, 0x0380, 0x03D1, 0x03D2,
              0x03D3, 0x03D4, 0x03D5, 0x03D6, 0x03D7, 0x03D8, 0x03D9, 0x03DA, 0x03DB, 0x03DC, 0x03DD, 0x03DE, 0x03E0, 0x03E1,
              0x03E2, 0x03E3, 0x03E4, 0x03E5, 0x03E6, 0x03E7, 0x03E8, 0x03F1, 0x03F5, 0x03FF]


def preflight():
    return C.anchor_selftest()


def gen(seed: int, tier: str) -> dict[str, Any]:
    if seed % 10 == 7:
        # one run in 10: the whole stack (sim/e2e.py, Data Secure variant) - the key material is set up and torn down by
        # KNXIPInterface.start()/stop() while frames keep arriving through a real tunnel
        return E.gen(seed, tier, "C18")
    rng = random.Random(seed)
    ops = []
    for i in range(rng.choice([5, 12, 25])):
        k = rng.choices(["plain_keyed", "plain_unkeyed", "sec_keyed", "sec_unkeyed", "sync", "tool", "sbc", "p2p_secure",
                         "wrong_key", "malformed_inner", "out_keyed", "out_unkeyed", "out_setter", "out_p2p", "out_bcast", "scf_any"],
                        [4, 2, 3, 1, 1, 1, 1, 1, 1, 8, 3, 1, 1, 2, 1, 4])[0]
        op: dict[str, Any] = {"op": k, "id": i + 1}
        if k == "scf_any":
            # any security control field octet (reserved algorithm identifiers, every service / flag combination), to a keyed
            # or unkeyed group address or point-to-point
            op["scf"] = rng.choice([x for x in range(256) if x not in (0x00, 0x10)])
            op["to"] = rng.choice(["keyed", "keyed", "unkeyed", "p2p"])
        if k == "out_p2p":
            # point-to-point telegrams share the 16-bit raw address space with group addresses: some go to the individual
            # address whose raw value equals the keyed / unkeyed group address
            op["dst"] = rng.choice(["raw=keyed", "raw=keyed", "raw=unkeyed", "other"])
            op["tpci"] = rng.choice(["connect", "disconnect", "individual"])
        if k in ("out_keyed", "out_unkeyed", "out_setter") and rng.random() < 0.25:
            # the hand-off to the interface fails although the frame was transmitted (e.g. both tunnelling acknowledgements
            # lost): the frame may have reached the bus, a peer may have accepted it
            op["fail"] = "comm_error_sent"
        if k == "malformed_inner":
            form = rng.choice(["empty", "one", "head_only", "head+1", "head+n", "random"])
            op["form"] = form
            op["head"] = rng.choice(APCI_HEADS)
            op["n"] = rng.choice([2, 3, 4, 5, 8, 11, 14, 20, 60])
            op["algo"] = rng.choice(["enc", "auth"])
        ops.append(op)
    # further key-issue callbacks next to the recording one: a one-shot callback (unregisters itself when it is called), one
    # that registers another callback when called, one that raises - before or after the recording one
    extra = []
    if rng.random() < 0.3:
        for _ in range(rng.choice([1, 2])):
            extra.append({"k": rng.choice(["oneshot", "registers", "raises", "plain"]), "first": rng.random() < 0.5})
    return {"seed": seed, "tier": "S", "config": {"batch": 1, "shadow": rng.random() < 0.25}, "ops": ops, "issue_cbs": extra}


def run(plan: dict[str, Any]) -> dict[str, Any]:
    if plan["config"].get("mode") == "e2e":
        R, obs = E.run(plan)
        E.judge_c18(R, obs)
        return E.finish(R, obs)
    from xknx.devices import Switch
    from xknx.dpt import DPTArray
    from xknx.telegram import GroupAddress, IndividualAddress, Telegram, tpci as T
    from xknx.telegram.apci import DeviceDescriptorRead, GroupValueWrite, IndividualAddressRead

    R = Run(plan, max_time=5000.0)
    loop = R.loop
    rng = random.Random(plan["seed"] ^ 0xC18)
    GK, GU = W.ga(0, 4, 1), W.ga(0, 5, 1)      # keyed / unkeyed
    key = rng.randbytes(16)
    keys = {GK: key}
    S1 = W.ia(4, 0, 7)
    rx = D.Node(R, "rx", W.ia(5, 0, 1), keys, {S1: 0})
    tx = D.Node(R, "tx", W.ia(5, 0, 2), keys, {}, last_seq_sending=rng.randrange(1, 2 ** 47))
    dev_calls: list[int] = []
    seq = [10]
    results: list[dict[str, Any]] = []
    out_frames: list[tuple[int, bytes]] = []

    class RecSwitch(Switch):
        def process_group_write(self, telegram):
            dev_calls.append(telegram.destination_address.raw)
            return super().process_group_write(telegram)

    def nxt():
        seq[0] += 1
        return seq[0]

    tq = rx.xknx.telegram_queue
    extra_calls: list[str] = []

    def mk_issue_cb(spec):
        unreg = [None]

        def cb(tg):
            extra_calls.append(spec["k"])
            if spec["k"] == "oneshot" and unreg[0] is not None:
                unreg[0]()
            elif spec["k"] == "registers":
                tq.register_data_secure_group_key_issue_cb(lambda t: extra_calls.append("late"))
            elif spec["k"] == "raises":
                raise RuntimeError("scripted key-issue callback failure")
        return cb, unreg

    for spec in plan.get("issue_cbs") or []:
        cb_, unreg_ = mk_issue_cb(spec)
        if spec["first"]:
            # in front of the recording callback
            tq.unregister_data_secure_group_key_issue_cb(rx._on_issue)   # pylint: disable=protected-access
            unreg_[0] = tq.register_data_secure_group_key_issue_cb(cb_)
            tq.register_data_secure_group_key_issue_cb(rx._on_issue)     # pylint: disable=protected-access
        else:
            unreg_[0] = tq.register_data_secure_group_key_issue_cb(cb_)

    async def main():
        rx.xknx.devices.async_add(RecSwitch(rx.xknx, "k", group_address=GroupAddress(GK), sync_state=False))
        rx.xknx.devices.async_add(RecSwitch(rx.xknx, "u", group_address=GroupAddress(GU), sync_state=False))
        sw_k = Switch(tx.xknx, "tk", group_address=GroupAddress(GK), sync_state=False)
        tx.xknx.devices.async_add(sw_k)
        await rx.xknx.start()
        await tx.xknx.start()
        if plan["config"].get("shadow"):
            # a second installation handled by the same process: an XKNX object holding no key for GK (it has one for another
            # address) sees plain traffic on GK / GU and sends a plain telegram to GK itself - before and while rx is judged
            ob = D.Node(R, "ob", W.ia(5, 0, 9), {W.ga(0, 6, 1): rng.randbytes(16)}, {})
            await ob.xknx.start()
            for g_ in (GK, GU, GK):
                ob.stub.deliver(W.cemi_ldata(W.L_DATA_IND, S1, g_, tpci_apci=W.gv_write_small(1)), "ob")
            ob.xknx.telegrams.put_nowait(Telegram(destination_address=GroupAddress(GK),
                                                  payload=GroupValueWrite(DPTArray((0x12, 0x34)))))
            await asyncio.sleep(0.05)
            R.extra_faults["second_installation_without_the_key_in_the_same_process"] += 1
        def on_send(raw, rec):
            c = W.parse_cemi_ldata(raw)
            if c["group"]:
                out_frames.append((c["dst"], raw))
            elif D.parse_secure(raw) is None:
                R.probes["outgoing_point_to_point_plain"] += 1
        tx.stub.on_send = on_send
        fail_next: list[str] = []

        def pick(raw, i):
            if fail_next:
                R.extra_faults["handoff_failed_after_transmission"] += 1
                return {"lat": 0.002, "out": fail_next.pop()}
            return None
        tx.stub.pick = pick
        for op in plan["ops"]:
            k = op["op"]
            if op.get("fail"):
                fail_next.append(op["fail"])
            apdu = bytes((0x00, 0x81))
            d0, i0, e0 = len(rx.delivered), len(rx.key_issues), len(R.net.protocol_escapes)
            c0 = len(dev_calls)
            fr = None
            if k == "plain_keyed":
                fr = W.cemi_ldata(W.L_DATA_IND, S1, GK, tpci_apci=apdu)
            elif k == "plain_unkeyed":
                fr = W.cemi_ldata(W.L_DATA_IND, S1, GU, tpci_apci=apdu)
            elif k == "sec_keyed":
                fr = D.secure_frame(key, apdu, nxt(), S1, GK)
            elif k == "sec_unkeyed":
                fr = D.secure_frame(key, apdu, nxt(), S1, GU)
            elif k == "sync":
                fr = D.secure_frame(key, apdu, nxt(), S1, GK, scf=rng.choice([0x12, 0x13, 0x02]))
            elif k == "tool":
                fr = D.secure_frame(key, apdu, nxt(), S1, GK, scf=0x90)
            elif k == "sbc":
                fr = D.secure_frame(key, apdu, nxt(), S1, GK, scf=0x18)
            elif k == "p2p_secure":
                fr = D.secure_frame(key, bytes((0x03, 0x00)), nxt(), S1, W.ia(5, 0, 1), group=False, ctrl1=0xB0)
            elif k == "scf_any":
                scf_ = op["scf"]
                algo_ = (scf_ >> 4) & 7
                sq = nxt()
                dst_ = W.ia(5, 0, 1) if op["to"] == "p2p" else (GK if op["to"] == "keyed" else GU)
                grp_ = op["to"] != "p2p"
                ap_ = apdu if grp_ else bytes((0x03, 0x00))
                # reserved algorithm identifiers have no defined transform: the secured part is built as for the defined
                # algorithm sharing the lowest identifier bit, the octet on the wire is the one asked for
                body_ = C.ds_secure(key, ap_, scf_ if algo_ in (0, 1) else (scf_ & 0x9F), sq, S1, dst_, grp_, 0, 0)
                fr = D.secure_frame(key, ap_, sq, S1, dst_, group=grp_, ctrl1=0xBC if grp_ else 0xB0, scf=scf_, asdu=body_)
            elif k == "wrong_key":
                fr = D.secure_frame(rng.randbytes(16), apdu, nxt(), S1, GK)
            elif k == "malformed_inner":
                head = op["head"].to_bytes(2, "big")
                inner = {"empty": b"", "one": head[:1], "head_only": head, "head+1": head + b"\x01",
                         "head+n": head + rng.randbytes(op["n"]), "random": rng.randbytes(op["n"])}[op["form"]]
                fr = D.secure_frame(key, inner, nxt(), S1, GK, scf=D.SCF_ENC if op["algo"] == "enc" else D.SCF_AUTH)
                op_inner = inner
            elif k == "out_keyed":
                tx.xknx.telegrams.put_nowait(Telegram(destination_address=GroupAddress(GK),
                                                      payload=GroupValueWrite(DPTArray((op["id"] & 0xFF,)))))
            elif k == "out_unkeyed":
                tx.xknx.telegrams.put_nowait(Telegram(destination_address=GroupAddress(GU),
                                                      payload=GroupValueWrite(DPTArray((op["id"] & 0xFF,)))))
            elif k == "out_setter":
                await sw_k.set_on()
            elif k == "out_p2p":
                dst = {"raw=keyed": GK, "raw=unkeyed": GU, "other": W.ia(1, 1, 77)}[op["dst"]]
                if op["tpci"] == "individual":
                    tg = Telegram(destination_address=IndividualAddress(dst), tpci=T.TDataIndividual(),
                                  payload=DeviceDescriptorRead(descriptor=0))
                else:
                    tg = Telegram(destination_address=IndividualAddress(dst),
                                  tpci=T.TConnect() if op["tpci"] == "connect" else T.TDisconnect())
                tx.xknx.telegrams.put_nowait(tg)
            elif k == "out_bcast":
                tx.xknx.telegrams.put_nowait(Telegram(destination_address=GroupAddress(0), tpci=T.TDataBroadcast(),
                                                      payload=IndividualAddressRead()))
            if fr is not None:
                rx.stub.deliver(fr, k)
            await asyncio.sleep(0.02)
            results.append({"op": op, "delivered": rx.delivered[d0:], "issues": rx.key_issues[i0:],
                            "escapes": R.net.protocol_escapes[e0:], "dev": dev_calls[c0:]})
        await asyncio.sleep(4.0)
        await tx.xknx.stop()
        await rx.xknx.stop()

    R.execute(main())
    nontrivial = False
    for r in results:
        op = r["op"]
        k = op["op"]
        label = k + (":" + op["form"] if k == "malformed_inner" else "")
        for e in r["escapes"]:
            R.violate("C18.no-raise", f"{e['type']}@{e['func']}", f"{label} head={op.get('head'):#06x} form={op.get('form')}: {e['msg']}"
                      if k == "malformed_inner" else f"{label}: {e['msg']}")
        if k == "plain_keyed":
            nontrivial = True
            if r["delivered"] or r["dev"]:
                R.violate("C18.plain-to-keyed", "plain-frame-delivered-on-secured-address",
                          f"callbacks {len(r['delivered'])}, devices {len(r['dev'])}")
            if len(r["issues"]) != 1:
                R.violate("C18.plain-to-keyed", f"key-issue-callbacks={len(r['issues'])}", "expected exactly one key-issue report")
        elif k == "plain_unkeyed":
            if len(r["delivered"]) != 1 or r["delivered"][0]["secure"]:
                R.violate("C18.plain-to-unkeyed", f"delivered={len(r['delivered'])}", "plain frame to an unkeyed address must be delivered as plain")
        elif k == "sec_keyed":
            if len(r["delivered"]) != 1 or r["delivered"][0]["secure"] is not True:
                R.violate("C18.secured-accepted", f"delivered={len(r['delivered'])}", "genuine secured frame not delivered once as Data Secure")
        elif k in ("sec_unkeyed", "sync", "tool", "sbc", "p2p_secure", "wrong_key", "scf_any"):
            if r["delivered"] or r["dev"]:
                R.violate("C18.rejects", f"{k}-delivered", f"{len(r['delivered'])} telegrams delivered")
        elif k == "malformed_inner":
            nontrivial = True
            for d in r["delivered"]:
                R.probes["malformed_inner_delivered_as_" + ("plain" if not d["secure"] else "secure")] += 1
    # outgoing: always secured on keyed addresses, plain on unkeyed
    for (dst, raw) in out_frames:
        ps = D.parse_secure(raw)
        if dst == GK and ps is None:
            R.violate("C18.outgoing-secured", "plain-frame-sent-to-secured-address", raw.hex())
        if dst == GU and ps is not None:
            R.violate("C18.outgoing-secured", "secured-frame-sent-to-unkeyed-address", raw.hex())
    # ... and secured means: a peer holding the key and the sender's last sequence number accepts each of them (the MAC
    # verifies over exactly this frame, the sequence number is above every one this sender used before)
    peer_last = -1
    for (dst, raw) in out_frames:
        ps = D.parse_secure(raw)
        if dst != GK or ps is None:
            continue
        plain = C.ds_open(key, ps["asdu"], ps["scf"], ps["src"], ps["dst"], True, 0, ps["tpci_octet"])
        if plain is None:
            R.violate("C18.outgoing-secured", "outgoing-secured-frame-does-not-verify", raw.hex())
        elif ps["seq"] <= peer_last:
            R.violate("C18.outgoing-secured", "outgoing-frame-rejected-by-peer-as-replay",
                      f"sequence number {ps['seq']} after {peer_last}: a peer that saw the earlier frame discards this one "
                      f"(and the cipher stream of that number is used twice)")
        peer_last = max(peer_last, ps["seq"])
        R.probes["outgoing_secured_frames_opened_by_reference"] += 1
    n_out_k = sum(1 for o in plan["ops"] if o["op"] in ("out_keyed", "out_setter"))
    if sum(1 for (dst, _) in out_frames if dst == GK) != n_out_k:
        R.violate("C18.outgoing-secured", "outgoing-frame-count", f"{n_out_k} telegrams queued to the keyed address, "
                  f"{sum(1 for (d, _) in out_frames if d == GK)} frames handed to the interface")
    R.check_escapes("C18.no-raise")
    R.extra_faults["malformed_inner"] += sum(1 for o in plan["ops"] if o["op"] == "malformed_inner")
    R.extra_faults["plain_to_keyed"] += sum(1 for o in plan["ops"] if o["op"] == "plain_keyed")
    return R.result(nontrivial=nontrivial, abstract=[(o["op"], o.get("form"), o.get("head")) for o in plan["ops"]])
