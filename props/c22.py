"""C22 — transports deliver stream frames once, in order, without crashing.

A real TCPTransport / UDPTransport connected through the simulated network to a
stub peer that writes a generated stream.  The fault is the *segmentation* of
the TCP byte stream (tcp_split / tcp_merge): every set of split points for short
streams, seeded random splits (incl. one-octet chunks and one single chunk) for
long ones; for UDP, datagram sequences with loss/duplication/reordering.
Oracle compares the frames handed to a catch-all callback with the stream's own
construction list.
"""

from __future__ import annotations

import asyncio
import random
import struct
from typing import Any

from sim import wire as W
from sim.world import Run

ID = "C22"
HANG_WATCHDOG = True     # a parser that never returns inside the datagram / stream callback is caught by the harness watchdog
LEVEL = "fault_enumeration"
RUNS = {"quick": 2000, "thorough": 900000}
BUDGET = {"quick": 100.0, "thorough": 3300.0}
CHUNK = 50
EXHAUSTIVE = ["all 2^(n-1) chunkings of every generated TCP stream of at most 12 (quick) / 16 (thorough) octets"]
RULE = ("one run = one generated stream (valid frames, malformed frames with readable length, hostile bytes) fed to a "
        "real TCPTransport under every chunking (short streams) or 6 seeded chunkings (long streams, up to 2000 frames), "
        "or a datagram sequence fed to a real UDPTransport; non-trivial = stream has >=2 frames and at least one "
        "chunk boundary inside a frame or one malformed item; distinct = distinct (item-kind sequence, chunking class)")
REAL = ["xknx.io.transport.TCPTransport", "xknx.io.transport.UDPTransport", "xknx.knxip.KNXIPFrame.from_knx and body parsers"]
STUB = ["peer writing the stream (harness)", "network/TCP segmentation (SimNet)", "loop (SimLoop)"]
ASSUMPTIONS = ["a frame is 'well-formed' iff it was built by the harness' own encoder from the valid-frame table",
               "after hostile bytes (unreadable header length) only the no-escape clause is judged"]
LMAX = {"quick": 12, "thorough": 16}


# ------------------------------------------------------------------ stream material
def valid_item(rng: random.Random, uid: int) -> tuple[bytes, tuple]:
    a, b = (uid >> 8) & 0xFF, uid & 0xFF
    k = rng.choice(["tun_req", "tun_ack", "cs_res", "disc_req", "disc_res", "conn_res", "rt_ind", "rt_busy", "cfg_ack",
                    "tun_req_long"])
    if k == "tun_req_long":
        # frames of very different lengths in one stream (extended cEMI frame with a long APDU)
        data = bytes((uid + i) & 0xFF for i in range(rng.choice([12, 40, 55, 120, 240])))
        cemi = W.cemi_ldata(W.L_DATA_IND, 0x1101, 0x0901, tpci_apci=W.gv_write(data))
        return W.tunnelling_request(a, b, cemi), (W.TUNNEL_REQ, a, b)
    if k == "tun_req":
        cemi = W.cemi_ldata(W.L_DATA_IND, 0x1101, 0x0901, tpci_apci=W.gv_write_small(b & 0x3F))
        return W.tunnelling_request(a, b, cemi), (W.TUNNEL_REQ, a, b)
    if k == "tun_ack":
        return W.tunnelling_ack(a, b), (W.TUNNEL_ACK, a, b)
    if k == "cfg_ack":
        return W.devcfg_ack(a, b), (W.DEVCFG_ACK, a, b)
    if k == "cs_res":
        return W.connstate_response(b, 0), (W.CONNSTATE_RES, b, 0)
    if k == "disc_req":
        return W.disconnect_request(b, W.hpai(tcp=True)), (W.DISCONNECT_REQ, b, 0)
    if k == "disc_res":
        return W.disconnect_response(b, 0), (W.DISCONNECT_RES, b, 0)
    if k == "conn_res":
        return W.connect_response(b, 0, W.hpai(tcp=True), ind_addr=0x1100 | a), (W.CONNECT_RES, b, 0x1100 | a)
    if k == "rt_ind":
        cemi = W.cemi_ldata(W.L_DATA_IND, 0x1100 | a, 0x0900 | b, tpci_apci=W.gv_write_small(1))
        return W.routing_indication(cemi), (W.ROUTING_IND, a, b)
    return W.routing_busy(uid & 0xFFFF), (W.ROUTING_BUSY, uid & 0xFFFF, 0)


def malformed_item(rng: random.Random) -> bytes:
    k = rng.choice(["version", "unknown_svc", "unimpl_svc", "empty_body", "short_body", "bad_status",
                    "bad_hpai", "bad_struct_len", "trailing", "bad_dib", "bad_dib"])
    if k == "bad_dib":
        # description blocks with impossible structure lengths (0, 1, beyond the frame) or unknown type codes, in the three
        # services that carry them
        svc = rng.choice([W.SEARCH_RES, W.DESCR_RES, W.SEARCH_RES_EXT])
        pre = b"" if svc == W.DESCR_RES else W.hpai("10.0.0.2", 3671)
        good = bytes((0x36, 0x01)) + bytes(52)      # device info block (length 54)
        fam = bytes((0x06, 0x02, 0x02, 0x02, 0x04, 0x02))
        bad = rng.choice([bytes((0x00, rng.choice([0x02, 0x03, 0x06, 0x07, 0xFE]))), bytes((0x01, 0x02)),
                          bytes((0xF0, 0x02, 0x02, 0x01)), bytes((0x04, 0x55, 0x00, 0x00)), bytes((0x02,)),
                          bytes((0x00, 0x01)) + bytes(52)])
        body = pre + rng.choice([bad, good + bad, good + fam + bad, bad + good])
        return W.frame(svc, body)
    if k == "version":
        body = bytes(rng.randrange(256) for _ in range(rng.randint(0, 6)))
        return bytes((6, rng.choice([0x11, 0x20, 0x00]))) + struct.pack(">HH", W.TUNNEL_ACK, 6 + len(body)) + body
    if k == "unknown_svc":
        body = bytes(rng.randrange(256) for _ in range(rng.randint(0, 8)))
        return W.frame(rng.choice([0x0FFF, 0x0000, 0x0999, 0xFFFF]), body)
    if k == "unimpl_svc":
        body = bytes(rng.randrange(256) for _ in range(rng.randint(0, 8)))
        return W.frame(rng.choice([0x0533, 0x0740, 0x0741, 0x0742, 0x0743]), body)
    if k == "empty_body":
        return W.frame(rng.choice([W.TUNNEL_REQ, W.TUNNEL_ACK, W.CONNSTATE_RES, W.CONNECT_RES, W.DISCONNECT_REQ,
                                   W.ROUTING_BUSY, W.DEVCFG_REQ, W.SESSION_RES, W.SECURE_WRAPPER, W.ROUTING_LOST,
                                   W.SEARCH_RES, W.DESCR_RES, W.TIMER_NOTIFY, W.SESSION_STATUS]), b"")
    if k == "short_body":
        svc = rng.choice([W.TUNNEL_REQ, W.TUNNEL_ACK, W.CONNECT_RES, W.DISCONNECT_REQ, W.SEARCH_RES, W.DESCR_RES,
                          W.SECURE_WRAPPER, W.SESSION_RES, W.CONNECT_REQ, W.CONNSTATE_REQ])
        return W.frame(svc, bytes(rng.randrange(256) for _ in range(rng.randint(1, 3))))
    if k == "bad_status":
        return W.frame(rng.choice([W.CONNSTATE_RES, W.DISCONNECT_RES]), bytes((1, rng.choice([0xEE, 0x7F, 0x03]))))
    if k == "bad_hpai":
        return W.frame(W.DISCONNECT_REQ, bytes((1, 0, 7, 1, 0, 0, 0, 0, 0, 0)))
    if k == "bad_struct_len":
        return W.frame(W.TUNNEL_REQ, bytes((5, 1, 0, 0)) + W.cemi_ldata(W.L_DATA_IND, 1, 2))
    return W.frame(W.TUNNEL_ACK, bytes((4, 1, 2, 0, 9, 9)))


def hostile_item(rng: random.Random) -> bytes:
    k = rng.choice(["hdrlen", "short_total", "random", "zero_total"])
    if k == "hdrlen":
        return bytes((rng.choice([5, 7, 0, 0xFF]), 0x10)) + struct.pack(">HH", W.TUNNEL_ACK, 10) + bytes(4)
    if k == "short_total":
        # (also services whose body may be empty: nothing but the header then says where the frame ends)
        return bytes((6, 0x10)) + struct.pack(">HH", rng.choice([W.TUNNEL_ACK, W.SEARCH_REQ, 0x0FFF, W.DESCR_RES, W.ROUTING_IND,
                                                                  W.SEARCH_RES_EXT]), rng.randint(1, 5))
    if k == "zero_total":
        return bytes((6, 0x10)) + struct.pack(">HH", rng.choice([W.TUNNEL_ACK, W.DESCR_REQ, 0x0FFF, W.DESCR_RES, W.ROUTING_IND,
                                                                  W.SEARCH_RES_EXT]), 0)
    return bytes(rng.randrange(256) for _ in range(rng.randint(1, 20)))


def gen(seed: int, tier: str) -> dict[str, Any]:
    rng = random.Random(seed)
    proto = "tcp" if rng.random() < 0.8 else "udp"
    shape = rng.choices(["short", "medium", "long"], [0.45, 0.5, 0.05])[0]
    hostile = rng.random() < 0.2
    items: list[dict[str, Any]] = []
    uid = rng.randrange(1, 60000)
    if shape == "short" and proto == "tcp":
        # streams short enough for exhaustive chunking
        budget = LMAX[tier]
        while True:
            if rng.random() < 0.35:
                raw = malformed_item(rng)
                it = {"k": "B", "hex": raw.hex()}
            else:
                raw, key = valid_item(rng, uid)
                uid += 1
                it = {"k": "A", "hex": raw.hex(), "key": list(key)}
            if len(raw) > budget:
                if items:
                    break
                continue
            budget -= len(raw)
            items.append(it)
            if budget < 6:
                break
    else:
        n = rng.choice([2, 3, 5, 8, 20]) if shape != "long" else rng.choice([300, 990, 1100, 2000])
        pm = rng.choice([0.0, 0.2, 0.5]) if shape != "long" else rng.choice([0.0, 0.02])
        if shape == "medium" and rng.random() < 0.25:
            # one very long frame first, then a short tail (shorter than that frame) with malformed frames in it: whatever the
            # transport remembers about the long frame must not govern the frames behind it
            data = bytes((uid + i_) & 0xFF for i_ in range(rng.choice([120, 240])))
            raw = W.tunnelling_request(uid >> 8 & 0xFF, uid & 0xFF, W.cemi_ldata(W.L_DATA_IND, 0x1101, 0x0901, tpci_apci=W.gv_write(data)))
            items.append({"k": "A", "hex": raw.hex(), "key": [W.TUNNEL_REQ, uid >> 8 & 0xFF, uid & 0xFF]})
            uid += 1
            n = rng.choice([2, 3, 5])
            pm = 0.4
        for _ in range(n):
            if rng.random() < pm:
                items.append({"k": "B", "hex": malformed_item(rng).hex()})
            else:
                raw, key = valid_item(rng, uid)
                uid += 1
                items.append({"k": "A", "hex": raw.hex(), "key": list(key)})
        if hostile:
            pos = rng.randrange(len(items) + 1)
            items.insert(pos, {"k": "C", "hex": hostile_item(rng).hex()})
    total = sum(len(i["hex"]) // 2 for i in items)
    exhaustive = proto == "tcp" and total <= LMAX[tier] and not any(i["k"] == "C" for i in items)
    chunkings: list[Any] = []
    if proto == "tcp" and not exhaustive:
        modes = ["single", "octets" if total <= 4000 else "frames", "frames"]
        for m in modes:
            chunkings.append({"mode": m})
        for _ in range(3):
            ncut = rng.randint(1, max(1, min(40, total - 1)))
            cuts = sorted(rng.sample(range(1, total), min(ncut, total - 1))) if total > 1 else []
            chunkings.append({"mode": "cuts", "cuts": cuts})
        # every (or every other) frame arrives in two parts, never cut at a frame boundary: the remainder of one frame and the
        # beginning of the next always share a chunk
        for p_in in (1.0, 0.5):
            offs, pos = [], 0
            for it_ in items:
                ln_ = len(it_["hex"]) // 2
                if ln_ >= 2 and rng.random() < p_in:
                    offs.append(pos + rng.randrange(1, ln_))
                pos += ln_
            chunkings.append({"mode": "cuts", "cuts": offs})
    reconnect_cut = None
    if proto == "tcp" and not exhaustive and total > 8 and not any(i["k"] == "C" for i in items) and rng.random() < 0.3:
        # the connection dies somewhere in the stream (often in the middle of a frame) and the *same* transport object
        # connects again: the new stream starts afresh
        reconnect_cut = rng.randrange(1, total)
    policy = None
    if proto == "udp" and rng.random() < 0.5:
        policy = {"drop": 0.1, "dup": 0.1, "delay": 0.1}
    return {"seed": seed, "tier": "S", "config": {"proto": proto, "exhaustive": exhaustive, "batch": 1,
                                                   "reconnect_cut": reconnect_cut, "oneshot_cb": rng.random() < 0.3,
                                                   # the first connection is closed by the client itself and its
                                                   # connection_lost is reported late (unflushed write buffer) - after the
                                                   # same transport object has connected again
                                                   "late_lost": rng.choice([0.005, 0.02]) if reconnect_cut and rng.random() < 0.5
                                                   else None,
                                                   # a second TCP transport of the same process receives its own stream
                                                   # meanwhile (non-exhaustive runs)
                                                   "shadow": proto == "tcp" and not exhaustive and rng.random() < 0.25},
            "items": items, "chunkings": chunkings, "fault_policy": policy}


SHRINK_LISTS = ("items", "chunkings")


class _Peer:
    """TCP server stub: writes the chunks of one chunking when a client connects."""

    down = False

    def __init__(self):
        self.chunks: list[bytes] = []
        self.conn = None

    auto = True

    def on_accept(self, conn):
        self.conn = conn
        if self.auto:
            for ch in self.chunks:
                conn.send_to_client(ch, lat=0.001)

    def on_data(self, conn, data):
        pass

    def on_close(self, conn):
        pass


def run(plan: dict[str, Any]) -> dict[str, Any]:
    from xknx.io.transport import TCPTransport, UDPTransport

    cfg = plan["config"]
    R = Run(plan, max_time=50000.0, max_iterations=5_000_000)
    loop, net = R.loop, R.net
    items = plan["items"]
    stream = b"".join(bytes.fromhex(i["hex"]) for i in items)
    first_c = next((idx for idx, i in enumerate(items) if i["k"] == "C"), None)
    judged_items = items if first_c is None else items[:first_c]
    expected = [tuple(i["key"]) for i in judged_items if i["k"] == "A"]
    strict = first_c is None
    stats = {"chunkings": 0, "inside_frame_cuts": 0}

    def key_of(frame) -> tuple:
        svc = frame.header.service_type_ident.value
        b = frame.body
        if svc in (W.TUNNEL_REQ, W.TUNNEL_ACK, W.DEVCFG_ACK):
            return (svc, b.communication_channel_id, b.sequence_counter)
        if svc in (W.CONNSTATE_RES, W.DISCONNECT_REQ, W.DISCONNECT_RES):
            return (svc, b.communication_channel_id, 0)
        if svc == W.CONNECT_RES:
            return (svc, b.communication_channel, b.crd.individual_address.raw if b.crd.individual_address else 0)
        if svc == W.ROUTING_IND:
            c = W.parse_cemi_ldata(bytes(b.raw_cemi))
            return (svc, c["src"] & 0xFF, c["dst"] & 0xFF) if c else (svc, -1, -1)
        if svc == W.ROUTING_BUSY:
            return (svc, b.wait_time, 0)
        return (svc, -1, -1)

    def judge(delivered: list[tuple], label: str, escapes_before: int):
        esc = net.protocol_escapes[escapes_before:]
        for e in esc:
            R.violate("C22.no-escape", f"{e['type']}@{e['func']}", f"[{label}] {e['where']}: {e['msg']}")
        for e in loop.escapes:
            R.violate("C22.no-escape", f"{e['type']}@loop", f"[{label}] {e['message']}")
        loop.escapes.clear()
        # a lenient parser may accept an item the harness built as "malformed" (e.g. trailing octets):
        # that is unjudged. Only frames carrying an expected key are compared - an extra copy of one
        # of those still shows up as a duplicate.
        expset = set(expected)
        lenient = [k for k in delivered if k not in expset]
        if lenient:
            R.probes["malformed_item_accepted_leniently"] += len(lenient)
        delivered = [k for k in delivered if k in expset]
        if strict:
            if delivered != expected:
                R.violate("C22.tcp-once-in-order" if cfg["proto"] == "tcp" else "C22.udp-once",
                          _diff_sig(expected, delivered),
                          f"[{label}] expected {len(expected)} frames, callbacks got {len(delivered)}; "
                          f"first difference at index {_first_diff(expected, delivered)}")
        else:
            if delivered[:len(expected)] != expected:
                R.violate("C22.tcp-once-in-order" if cfg["proto"] == "tcp" else "C22.udp-once",
                          "prefix-before-hostile:" + _diff_sig(expected, delivered[:len(expected)]),
                          f"[{label}] frames before the hostile bytes were not delivered in order")

    def _hangs():
        from sim import harness as _Hm
        return bool(_Hm.HANGS)

    async def one_tcp(chunks: list[bytes], label: str):
        peer = _Peer()
        peer.chunks = chunks
        net.tcp_listen("10.0.0.9", 3671, peer)
        delivered: list[tuple] = []
        tr = TCPTransport(("10.0.0.9", 3671))
        attach(tr, delivered)
        before = len(net.protocol_escapes)
        if cfg.get("shadow"):
            # a second TCP transport of the same process receives its own stream meanwhile, chunk by chunk in turn with the
            # judged one - every chunk of it ends inside a frame
            peer.auto = False
            peer2 = _Peer()
            peer2.auto = False
            net.tcp_listen("10.0.0.8", 3671, peer2)
            n2 = max(2, min(12, len(chunks)))
            stream2 = b"".join(W.frame(W.TUNNEL_ACK, bytes((4, 200, i & 0xFF, 0))) for i in range(n2))
            cuts = [4 + 10 * i for i in range(n2)]
            chunks2 = [stream2[a:b] for a, b in zip([0] + cuts, cuts + [len(stream2)])]
            got2: list[tuple] = []
            tr2 = TCPTransport(("10.0.0.8", 3671))
            attach(tr2, got2)
            await tr.connect()
            await tr2.connect()
            await asyncio.sleep(0.005)
            for i in range(max(len(chunks), len(chunks2))):
                if i < len(chunks) and peer.conn is not None:
                    peer.conn.send_to_client(chunks[i], lat=0.001)
                if i < len(chunks2) and peer2.conn is not None:
                    peer2.conn.send_to_client(chunks2[i], lat=0.001)
            await asyncio.sleep(0.002 * (len(chunks) + len(chunks2)) + 0.05)
            tr.stop()
            tr2.stop()
            R.extra_faults["second_tcp_transport_receiving_meanwhile"] += 1
            if len(got2) != n2:
                R.violate("C22.tcp-once-in-order", "second-transport:frames-lost" if len(got2) < n2 else "second-transport:frames-duplicated",
                          f"[{label}] the second transport of the process delivered {len(got2)} of its {n2} frames")
            await asyncio.sleep(0.01)
            stats["chunkings"] += 1
            judge(delivered, label, before)
            return
        await tr.connect()
        await asyncio.sleep(0.002 * len(chunks) + 0.05)
        tr.stop()
        await asyncio.sleep(0.01)
        stats["chunkings"] += 1
        judge(delivered, label, before)

    async def reconnect_tcp(k: int):
        """First connection: the stream up to octet k, then the server closes. Second connection of the same transport
        object: the whole stream.  Delivered = frames complete within the first k octets, then every frame again."""
        peer = _Peer()
        peer.chunks = [stream[:k]]
        net.tcp_listen("10.0.0.9", 3671, peer)
        delivered: list[tuple] = []
        tr = TCPTransport(("10.0.0.9", 3671))
        attach(tr, delivered)
        before = len(net.protocol_escapes)
        await tr.connect()
        await asyncio.sleep(0.05)
        if cfg.get("late_lost"):
            net.tcp_close_lag = cfg["late_lost"]
            tr.stop()
            net.tcp_close_lag = 0.0
            R.extra_faults["connection_lost_of_closed_connection_reported_late"] += 1
        else:
            if peer.conn is not None:
                peer.conn.server_close(None)
            await asyncio.sleep(0.05)
            tr.stop()
        first_n = len(delivered)
        peer.chunks = [stream]
        if cfg.get("late_lost"):
            # the new stream arrives in two parts, the second one after the late report of the old connection's end
            h = len(stream) // 2
            peer.chunks = [stream[:h]]
            await tr.connect()
            await asyncio.sleep(0.04)
            if peer.conn is not None:
                peer.conn.send_to_client(stream[h:], lat=0.001)
        else:
            await tr.connect()
        await asyncio.sleep(0.05)
        tr.stop()
        await asyncio.sleep(0.01)
        stats["chunkings"] += 1
        R.extra_faults["connection_lost_mid_stream_then_same_transport_reconnects"] += 1
        for e in net.protocol_escapes[before:]:
            R.violate("C22.no-escape", f"{e['type']}@{e['func']}", f"[reconnect] {e['where']}: {e['msg']}")
        expset = set(expected)
        second = [x for x in delivered[first_n:] if x in expset]
        if strict and second != expected:
            R.violate("C22.tcp-once-in-order", "new-connection:" + _diff_sig(expected, second),
                      f"[reconnect after {k} of {len(stream)} octets] the second connection of the same transport delivered "
                      f"{len(second)} of {len(expected)} frames; first difference at index "
                      f"{next((i for i, (a, b) in enumerate(zip(expected, second)) if a != b), min(len(expected), len(second)))}")

    def attach(tr, delivered):
        """Register the recording callback - in some runs behind a one-shot callback that unregisters itself from inside the
        dispatch of the first frame it sees (as the device management connection does on a DisconnectRequest)."""
        if cfg.get("oneshot_cb"):
            holder: list[Any] = [None]

            def oneshot(fr, src, t):
                if holder[0] is not None:
                    t.unregister_callback(holder[0])
                    holder[0] = None
                    R.extra_faults["callback_unregistered_itself_during_dispatch"] += 1
            holder[0] = tr.register_callback(oneshot)
        tr.register_callback(lambda fr, src, t: delivered.append(key_of(fr)))

    def cut(cuts: list[int]) -> list[bytes]:
        out = []
        prev = 0
        for c in cuts:
            out.append(stream[prev:c])
            prev = c
        out.append(stream[prev:])
        return [c for c in out if c]

    async def main():
        if cfg["proto"] == "udp":
            delivered: list[tuple] = []
            tr = UDPTransport((net.local_ip, 0), ("10.0.0.9", 3671))
            attach(tr, delivered)
            await tr.connect()
            peer = net.udp_bind("10.0.0.9", 3671, lambda d, s, k: None)
            dst = tr.getsockname()
            got_order: list[bytes] = []
            for idx, it in enumerate(items):
                peer.sendto(bytes.fromhex(it["hex"]), dst)
                await asyncio.sleep(0.01)
            await asyncio.sleep(5.0)
            tr.stop()
            # with datagram faults, compare against what was actually delivered to the socket
            exp = []
            by_hex = {i["hex"]: tuple(i["key"]) for i in items if i["k"] == "A"}
            for (n, t, itn, kind, actor, detail) in R.events:
                if kind == "udp_in" and actor.endswith(f">{dst[0]}:{dst[1]}") and detail in by_hex:
                    exp.append(by_hex[detail])
            for e in net.protocol_escapes:
                R.violate("C22.no-escape", f"{e['type']}@{e['func']}", f"[udp] {e['where']}: {e['msg']}")
            delivered = [k for k in delivered if k in set(by_hex.values())]
            if delivered != exp:
                R.violate("C22.udp-once", _diff_sig(exp, delivered),
                          f"datagrams delivered to the socket: {len(exp)} valid; callbacks got {len(delivered)}")
            stats["chunkings"] += 1
            return
        n = len(stream)
        if cfg["exhaustive"]:
            for mask in range(1 << max(0, n - 1)):
                cuts = [i + 1 for i in range(n - 1) if mask >> i & 1]
                await one_tcp(cut(cuts), f"mask={mask}")
                if _hangs():
                    break
                if R.violations:
                    plan.setdefault("first_failing_mask", mask)
                    break
        else:
            for ck in plan["chunkings"]:
                if ck["mode"] == "single":
                    chunks = [stream]
                elif ck["mode"] == "octets":
                    chunks = [stream[i:i + 1] for i in range(n)]
                elif ck["mode"] == "frames":
                    chunks = [bytes.fromhex(i["hex"]) for i in items]
                else:
                    chunks = cut([c for c in ck["cuts"] if 0 < c < n])
                await one_tcp(chunks, ck["mode"])
                if _hangs():
                    break
            if cfg.get("reconnect_cut") and not _hangs():
                await reconnect_tcp(cfg["reconnect_cut"])

    R.execute(main())
    from sim import harness as _H
    if _H.HANGS:
        # the library catches the watchdog's exception like any other error in a frame - what counts is that it had to fire.
        # Everything else observed in this run is a consequence of the interruption and is not reported.
        del R.violations[:]
        R.violate("C22.no-escape", "hang-in-receive-callback",
                  f"{'/'.join(sorted(set(_H.HANGS)))}() did not return within {_H.RUN_WALL_LIMIT:.0f} s of CPU time inside "
                  f"the transport's receive callback (interrupted by the harness watchdog)")
    R.probes["chunkings"] += stats["chunkings"]
    kinds = "".join(i["k"] for i in items)
    R.extra_faults["tcp_chunkings" if cfg["proto"] == "tcp" else "udp_sequences"] += stats["chunkings"]
    R.extra_faults["malformed_items"] += kinds.count("B")
    R.extra_faults["hostile_items"] += kinds.count("C")
    nontrivial = len(items) >= 2 or "B" in kinds or "C" in kinds
    abstract = [cfg["proto"], kinds if len(kinds) < 40 else (len(kinds), kinds.count("B"), kinds.count("C")),
                cfg["exhaustive"], [c.get("mode") for c in plan["chunkings"]],
                [len(i["hex"]) // 2 for i in items][:12]]
    # events of exhaustive runs are huge: digest only the verdict-relevant summary
    return R.result(nontrivial=nontrivial, abstract=abstract)


def _first_diff(a, b):
    for i, (x, y) in enumerate(zip(a, b)):
        if x != y:
            return i
    return min(len(a), len(b))


def _diff_sig(exp, got) -> str:
    if len(got) < len(exp):
        return "frames-lost"
    if len(got) > len(exp):
        return "frames-duplicated-or-invented"
    return "frames-reordered-or-altered"
