"""C29 — a secure session only accepts fresh wrapped frames and never sends plain ones.

W-TUN secure: a real SecureTunnel (SecureSession transport) over a simulated,
re-chunked TCP stream against SecureGateway (independent IP Secure crypto) that
also acts as the attacker: genuine, replayed, lower/equal/higher counter, forged
MAC, wrong key, wrong session id, plain frames of many service types, nested
wrappers, wrapped remote-diagnosis services, wrappers before the handshake has
finished; all client send paths (requests, heartbeats, keep-alives, close,
reconnects).
"""

from __future__ import annotations

import asyncio
import random
import struct
from typing import Any

from sim import crypto as C
from sim import wire as W
from sim.secure_gateway import SecureGateway
from sim.world import Run

ID = "C29"
HANG_WATCHDOG = True
LEVEL = "exploration"
RUNS = {"quick": 3000, "thorough": 1200000}
BUDGET = {"quick": 100.0, "thorough": 3300.0}
CHUNK = 100
RULE = ("one run = one secure tunnel session with a seeded receive history (genuine / replayed / reordered counters / forged / "
        "wrong key / wrong session / plain / nested / forbidden services / early wrappers) injected around and after the "
        "handshake over a re-chunked TCP stream, plus client sends, heartbeats, keep-alives, server closes and reconnects; "
        "non-trivial = at least one non-genuine frame injected; distinct = distinct sequence of injection kinds and model verdicts")
REAL = ["xknx.io.ip_secure.SecureSession", "xknx.io.tunnel.SecureTunnel", "xknx.io.request_response.Session/Authenticate",
        "xknx.io.transport.TCPTransport", "xknx.secure.security_primitives", "xknx.knxip.SecureWrapper codecs"]
STUB = ["secure gateway + attacker (sim.secure_gateway.SecureGateway, independent crypto)", "TCP stream (SimNet)", "loop (SimLoop)"]
ASSUMPTIONS = ["independent crypto anchored on AN159 vectors (sim.crypto.anchor_selftest)",
               "the attacker knows the session key for 'valid MAC' variants (it is the gateway)"]

KINDS = ["genuine", "genuine", "genuine", "replay", "lower", "equal", "jump", "forged", "wrong_key", "wrong_sid", "plain",
         "nested", "remote_diag", "garbage_inner", "session_response_replay", "forged_short"]
PLAIN_SVCS = [W.TUNNEL_REQ, W.CONNSTATE_RES, W.DISCONNECT_REQ, W.SESSION_STATUS, W.CONNECT_RES, W.TUNNEL_ACK, W.ROUTING_IND,
              W.SEARCH_RES, W.DESCR_RES, W.SESSION_AUTH, W.TIMER_NOTIFY, W.SESSION_REQ, W.SESSION_REQ, 0x0201, 0x0203, 0x0207,
              0x0310, 0x0530, 0x0532]


def preflight():
    return C.anchor_selftest()


def gen(seed: int, tier: str) -> dict[str, Any]:
    rng = random.Random(seed)
    ops: list[dict[str, Any]] = []
    long_run = rng.random() < 0.15
    horizon = rng.choice([80.0, 200.0]) if long_run else rng.choice([1.0, 3.0])
    n = rng.choice([0, 2, 5, 10, 20])
    clean = rng.random() < 0.15
    for i in range(n):
        k = "genuine" if clean else rng.choice(KINDS)
        op = {"t": round(rng.uniform(0.1, horizon), 6), "op": "inject", "k": k, "id": i + 1}
        if k == "plain":
            op["svc"] = rng.choice(PLAIN_SVCS)
        if k == "forged":
            op["flip"] = rng.randrange(0, 60 * 8)
        if k == "jump":
            op["d"] = rng.choice([1, 5, 1000, 2 ** 40])
        if k == "forged_short":
            op["n"] = rng.choice([0, 1, 2, 5, 6, 7, 8, 9])
            op["d"] = rng.choice([0, 1, 1000, 2 ** 40, 2 ** 47])
        ops.append(op)
    if not clean:
        if rng.random() < 0.3:
            ops.append({"t": 0.0, "op": "inject_at_accept", "svc": rng.choice(PLAIN_SVCS), "id": 900})
        if rng.random() < 0.2:
            ops.append({"t": 0.0, "op": "early_wrapper", "id": 901})
    for i in range(rng.choice([0, 1, 3])):
        ops.append({"t": round(rng.uniform(0.1, horizon), 6), "op": "send", "id": 500 + i})
    if rng.random() < 0.25:
        ops.append({"t": round(rng.uniform(0.2, horizon), 6), "op": "server_close"})
    elif rng.random() < 0.3:
        # the connection is cut and every reconnect is answered by an attacker replaying the recorded session
        ops.append({"t": round(rng.uniform(0.3, horizon), 6), "op": "replay_attack"})
    if rng.random() < 0.08:
        # a session that has sent almost 2^48 frames (harness seam: the send counter of the established session is moved to the
        # end of its range): the last numbers go out, then sending fails - a number is never used twice under one session key
        tj = round(rng.uniform(0.3, max(0.4, horizon - 0.5)), 6)
        ops.append({"t": tj, "op": "seq_exhaust", "left": rng.choice([0, 1, 2, 3])})
        for i in range(rng.choice([2, 4, 6])):
            ops.append({"t": round(tj + 0.01 + 0.05 * i, 6), "op": "send", "id": 600 + i})
    ops.sort(key=lambda o: o["t"])
    cfg = {"chunk": rng.choice([None, None, 1, 5, 7, 33]), "horizon": horizon, "batch": 1,
           "bad_dev_mac": (not clean) and rng.random() < 0.05, "auth_fail": (not clean) and rng.random() < 0.05,
           # the gateway refuses the first authentication(s) (e.g. no free tunnel for that user yet); the user calls
           # connect() again on the same object
           "auth_refused_first": rng.choice([1, 1, 2]) if (not clean) and rng.random() < 0.12 else 0,
           # the gateway hands out the lowest free session id: a reconnect gets the id of the session before (new key)
           "lowest_free_sid": rng.random() < 0.5,
           # the TCP connection dies while the first connect() waits for its SessionResponse: the reconnect's connect() runs
           # while the first one is still pending, and the one SessionResponse that arrives then wakes both
           "close_in_handshake": rng.choice([0.05, 0.3, 0.9]) if (not clean) and rng.random() < 0.1 else None,
           "shadow": rng.random() < 0.2}
    if (not clean) and rng.random() < 0.06 and not (cfg["bad_dev_mac"] or cfg["auth_fail"] or cfg["auth_refused_first"]
                                                     or cfg["close_in_handshake"]):
        # the gateway does not answer the first SessionAuthenticate; the caller of connect() gives up (wait_for) after this
        # long and calls connect() again on the same object, without a disconnect() in between
        cfg["abandon_first_connect"] = rng.choice([0.05, 0.3, 1.0])
    if cfg["bad_dev_mac"] or cfg["auth_fail"]:
        cfg["auth_refused_first"] = 0
        cfg["close_in_handshake"] = None
    return {"seed": seed, "tier": "S", "config": cfg, "ops": ops}


def run(plan: dict[str, Any]) -> dict[str, Any]:
    from xknx import XKNX
    from xknx.cemi import CEMIFrame
    from xknx.exceptions import CommunicationError
    from xknx.io.tunnel import SecureTunnel

    cfg = plan["config"]
    R = Run(plan, max_time=5000.0)
    loop, net = R.loop, R.net
    rng = random.Random(plan["seed"] ^ 0xC29)
    gw = SecureGateway(net, rng)
    gw.lowest_free_sid = bool(cfg.get("lowest_free_sid"))
    if cfg.get("close_in_handshake"):
        gw.session_script = [{"k": "close", "d": cfg["close_in_handshake"]}]
    gw.bad_dev_mac = cfg["bad_dev_mac"]
    if cfg["auth_fail"]:
        gw.auth_result = 1
    elif cfg.get("auth_refused_first"):
        gw.auth_results = [rng.choice([1, 2, 3])] * cfg["auth_refused_first"]     # failed / unauthenticated / timeout status
    elif cfg.get("abandon_first_connect"):
        gw.auth_results = [None]
    delivered: list[tuple[int, int]] = []      # (svc, id) reaching registered callbacks
    expected: list[tuple[int, int]] = []       # model
    last_acc: dict[int, int] = {}              # per tcp connection: last accepted counter (model)
    info: dict[str, Any] = {"connect": None}
    wrapped_svcs: set[int] = set()             # service types the gateway ever sent inside a (genuine) wrapper

    def bus(cemi, ch):
        if cemi and cemi[0] == W.L_DATA_REQ:
            gw.send_request(ch.cid, bytes((W.L_DATA_CON,)) + cemi[1:])

    gw.bus = bus

    def key_of(fr) -> tuple[int, int]:
        svc = fr.header.service_type_ident.value
        b = fr.body
        if svc == W.TUNNEL_REQ:
            c = W.parse_cemi_ldata(bytes(b.raw_cemi))
            return (svc, int.from_bytes(c["tpdu"][2:4], "big") if c and len(c["tpdu"]) >= 4 else -1)
        if svc in (W.CONNSTATE_RES, W.DISCONNECT_REQ, W.TUNNEL_ACK):
            return (svc, b.communication_channel_id)
        return (svc, -1)

    def inner_for(svc: int, pid: int) -> bytes:
        if svc == W.TUNNEL_REQ:
            return W.tunnelling_request(1, pid & 0xFF, W.cemi_ldata(W.L_DATA_IND, 0x1101, 0x0901, tpci_apci=W.gv_write(pid.to_bytes(2, "big"))))
        if svc == W.CONNSTATE_RES:
            return W.connstate_response(200, 0)
        if svc == W.DISCONNECT_REQ:
            return W.disconnect_request(201, W.hpai(tcp=True))
        if svc == W.SESSION_STATUS:
            return W.frame(W.SESSION_STATUS, bytes((5, 0)))
        if svc == W.CONNECT_RES:
            return W.connect_response(77, 0, W.hpai(tcp=True))
        if svc == W.TUNNEL_ACK:
            return W.tunnelling_ack(202, 0)
        if svc == W.ROUTING_IND:
            return W.routing_indication(W.cemi_ldata(W.L_DATA_IND, 0x1101, 0x0901))
        if svc == W.SESSION_AUTH:
            return W.frame(W.SESSION_AUTH, bytes(18))
        if svc == W.TIMER_NOTIFY:
            return C.timer_notify(bytes(16), 1, bytes(6), bytes(2))
        if svc == W.SESSION_REQ:
            # a well-formed SessionRequest (what the client itself sends): HPAI for TCP + an X25519 public key
            return W.frame(W.SESSION_REQ, W.hpai(tcp=True) + bytes(range(32)))
        if svc == 0x0532:
            return W.frame(0x0532, bytes((0x00, 0x00)))      # RoutingBusy-sized body
        if svc == W.SEARCH_RES:
            return W.frame(W.SEARCH_RES, W.hpai("10.0.0.2", 3671) + bytes((0x36, 0x01)) + bytes(52))
        return W.frame(svc, b"")

    async def main():
        xknx = XKNX()
        tunnel = SecureTunnel(xknx, cemi_received_callback=lambda raw: None, gateway_ip=gw.ip, gateway_port=gw.port,
                              user_id=2, user_password="user", device_authentication_password="dev",
                              auto_reconnect=True, auto_reconnect_wait=1)
        tunnel.transport.register_callback(lambda fr, src, t: (delivered.append(key_of(fr)),
                                                               R.record("delivered", "session", key_of(fr))))
        crng = random.Random(plan["seed"] ^ 0x77)

        def chunker(data: bytes):
            k = cfg["chunk"]
            if not k:
                return [data]
            out = []
            i = 0
            while i < len(data):
                n = k if k < 8 else crng.randint(1, k)
                out.append(data[i:i + n])
                i += n
            return out

        orig_accept = gw.on_accept

        def on_accept(conn):
            conn.chunker = chunker
            orig_accept(conn)
            last_acc[conn.cid] = -1
            if gw.replay is not None and "replay_from" not in info:
                info["replay_from"] = len(delivered)   # frames of the old connection still in flight are genuine
            for op in plan["ops"]:
                if op["op"] == "inject_at_accept":
                    # a plain frame before the SessionResponse: never accepted (only SessionResponse is)
                    conn.send_to_client(inner_for(op["svc"], op["id"]))
                    R.extra_faults["plain_before_handshake"] += 1

        gw.on_accept = on_accept
        net.tcp_listeners[(gw.ip, gw.port)] = gw
        # reference model: last counter the client accepted, per connection. Every wrapper the gateway sends through
        # send_wrapped() is acceptable unless the injection marks it otherwise.
        orig_send_wrapped = gw.send_wrapped

        def send_wrapped(s, plain, lat=None, accept=True):
            if accept and len(plain) >= 4:
                wrapped_svcs.add(struct.unpack(">H", plain[2:4])[0])
            fr = orig_send_wrapped(s, plain, lat=lat)
            if accept:
                last_acc[s.conn.cid] = s.tx_seq - 1
            return fr

        gw.send_wrapped = send_wrapped
        # early wrapper: right behind the SessionResponse (same TCP segment)
        early = [op for op in plan["ops"] if op["op"] == "early_wrapper"]
        if early:
            orig_rx = gw._secure_rx

            def rx(conn, fr):
                is_req = struct.unpack(">H", fr[2:4])[0] == W.SESSION_REQ and not info.get("early_done")
                captured: list[bytes] = []
                if is_req:
                    real_send = conn.send_to_client
                    conn.send_to_client = lambda d, lat=None: captured.append(d)
                orig_rx(conn, fr)
                if is_req:
                    conn.send_to_client = real_send
                s = gw.sessions[conn.cid]
                if is_req and not s.key:
                    for d in captured:
                        conn.send_to_client(d)
                if is_req and s.key:
                    info["early_done"] = True
                    # a wrapper right behind the SessionResponse (with luck in the same segment): the session may or may
                    # not be initialised when it is processed, so its delivery is unjudged - it must only not raise
                    w = gw.make_wrapper(s, inner_for(W.TUNNEL_REQ, early[0]["id"]))
                    wrapped_svcs.add(W.TUNNEL_REQ)
                    last_acc[conn.cid] = -2   # unknown from here until the next accepted protocol frame
                    conn.send_to_client(b"".join(captured) + w)   # one segment: SessionResponse + wrapper
                    R.extra_faults["wrapper_before_session_initialised"] += 1
            gw._secure_rx = rx

        t0 = loop.time()
        tasks = []

        async def do_connect():
            if cfg.get("abandon_first_connect"):
                try:
                    await asyncio.wait_for(tunnel.connect(), cfg["abandon_first_connect"])
                    info["connect"] = "ok"
                    return
                except TimeoutError:
                    R.extra_faults["first_connect_abandoned_by_its_caller"] += 1
                except CommunicationError as exc:
                    info["connect"] = f"failed:{type(exc).__name__}"
            # (one more attempt when the very first one dies with its TCP connection during the handshake)
            for attempt in range(1 + cfg.get("auth_refused_first", 0) + (1 if cfg.get("close_in_handshake") else 0)):
                try:
                    await tunnel.connect()
                    info["connect"] = "ok"
                    return
                except CommunicationError as exc:
                    info["connect"] = f"failed:{type(exc).__name__}"
                    R.extra_faults["authentication_refused"] += 1
                await asyncio.sleep(0.05)
            if cfg.get("auth_refused_first"):
                R.violate("C29.reconnect-after-refusal", "connect-fails-after-refused-authentication",
                          f"the gateway refused {cfg['auth_refused_first']} authentication(s) and accepts the next one, but "
                          f"connect() on the same object still failed: {info['connect']}")

        tasks.append(loop.create_task(do_connect()))

        async def do_send(pid):
            raw = W.cemi_ldata(W.L_DATA_REQ, 0, W.ga(1, 1, 1), tpci_apci=W.gv_write(pid.to_bytes(2, "big")))
            try:
                await tunnel.send_cemi(CEMIFrame.from_knx(raw))
            except CommunicationError:
                pass

        def inject(op):
            s = gw.current_session()
            if s is None or not s.authenticated or s.conn.cid not in last_acc:
                return
            cid = s.conn.cid
            # the model's view of the last accepted counter: everything the gateway sent genuinely so far is accepted in order
            k = op["k"]
            pid = op["id"]
            inner = inner_for(W.TUNNEL_REQ, pid)
            R.record("inject", k, pid)
            if k != "genuine":
                R.extra_faults["inject_" + k] += 1
            if k == "genuine":
                gw.send_wrapped(s, inner)
                expected.append((W.TUNNEL_REQ, pid))
            elif k == "replay":
                if s.sent_wrappers:
                    s.conn.send_to_client(rng.choice(s.sent_wrappers))
            elif k in ("lower", "equal"):
                acc = last_acc.get(cid, -1)
                if acc < 0:
                    return
                seq = acc if k == "equal" else max(0, acc - rng.randint(1, 3))
                s.conn.send_to_client(gw.make_wrapper(s, inner, seq=seq))
            elif k == "jump":
                s.tx_seq += op["d"]
                gw.send_wrapped(s, inner)
                expected.append((W.TUNNEL_REQ, pid))
            elif k == "forged":
                w = bytearray(gw.make_wrapper(s, inner, seq=s.tx_seq))   # does not consume the counter
                bit = op["flip"] % (len(w) * 8)
                # flips inside the total-length field desynchronise the stream itself - not a wrapper property
                if bit // 8 in (4, 5):
                    bit += 16
                w[bit // 8] ^= 1 << (bit % 8)
                info.setdefault("forged_bits", []).append(bit)
                if bit // 8 < 4:
                    return      # header length / version / service type: not a SecureWrapper any more (C22's domain)
                s.conn.send_to_client(bytes(w))
                # the untouched frame, sent right after, must still be accepted
                gw.send_wrapped(s, inner)
                expected.append((W.TUNNEL_REQ, pid))
            elif k == "forged_short":
                # a wrapper made without any key: right session id (readable on the wire), a sequence number ahead of the
                # gateway's, 0..9 octets where the encrypted frame belongs and a random MAC - too short to hold a frame.
                # It must be dropped without a trace: the genuine frame behind it is still accepted
                body = (struct.pack(">H", s.sid) + (s.tx_seq + op["d"]).to_bytes(6, "big") + bytes(6) + b"\x00\x00"
                        + rng.randbytes(op["n"]) + rng.randbytes(16))
                s.conn.send_to_client(W.frame(W.SECURE_WRAPPER, body))
                gw.send_wrapped(s, inner)
                expected.append((W.TUNNEL_REQ, pid))
            elif k == "wrong_key":
                s.conn.send_to_client(gw.make_wrapper(s, inner, seq=s.tx_seq, key=bytes(16)))
            elif k == "wrong_sid":
                s.conn.send_to_client(gw.make_wrapper(s, inner, seq=s.tx_seq, sid=(s.sid % 60000) + 1))
            elif k == "plain":
                s.conn.send_to_client(inner_for(op["svc"], pid))
            elif k == "nested":
                innerw = gw.make_wrapper(s, inner, seq=s.tx_seq + 100)
                gw.send_wrapped(s, innerw, accept=False)      # consumes a counter value; rejected; must not advance
            elif k == "remote_diag":
                gw.send_wrapped(s, W.frame(rng.choice([0x0740, 0x0741, 0x0742, 0x0743]), bytes(8)), accept=False)
            elif k == "garbage_inner":
                # correctly wrapped, but what is inside is not a well-formed frame: unknown service, known services with
                # empty / truncated bodies, a description block of length 0, a bad header, nothing at all
                garbage = rng.choice([
                    bytes((6, 0x10, 0x0F, 0xFF, 0, 8, 1, 2)), W.frame(W.ROUTING_BUSY, b""), W.frame(W.TUNNEL_REQ, b"\x04"),
                    W.frame(W.CONNECT_RES, b""), W.frame(W.SESSION_STATUS, b""), W.frame(W.TUNNEL_ACK, b"\x04\x01"),
                    W.frame(W.SEARCH_RES, W.hpai("10.0.0.2", 3671) + bytes((0x00, 0x02))),
                    W.frame(W.DISCONNECT_REQ, bytes((1, 0, 7, 1, 0, 0))), bytes((6, 0x20, 0x04, 0x20, 0, 8, 1, 2)), b"",
                    W.frame(W.TUNNEL_REQ, bytes((4, 1, 0, 0, 0x29, 0x05)))])
                if len(garbage) >= 4:
                    # a lenient parser may accept some of these (unjudged); what is judged is that none of them raises and
                    # that the counter value they use up is not lost for the frames behind them
                    wrapped_svcs.add(struct.unpack(">H", garbage[2:4])[0])
                gw.send_wrapped(s, garbage, accept=False)
            elif k == "session_response_replay":
                s.conn.send_to_client(W.frame(W.SESSION_RES, struct.pack(">H", s.sid) + s.server_pub + bytes(16)))

        def do(op):
            if op["op"] == "inject":
                inject(op)
            elif op["op"] == "send":
                tasks.append(loop.create_task(do_send(op["id"])))
            elif op["op"] == "seq_exhaust":
                sess = getattr(tunnel, "transport", None)
                if isinstance(getattr(sess, "_sequence_number", None), int) and getattr(sess, "initialized", False):
                    sess._sequence_number = max(sess._sequence_number, 2 ** 48 - op["left"])
                    R.extra_faults["send_counter_moved_to_the_end_of_its_range"] += 1
                else:
                    R.probes["send_counter_seam_unavailable"] += 1
            elif op["op"] == "server_close":
                s = gw.current_session()
                if s is not None:
                    s.conn.server_close(None)
                    gw.on_close(s.conn)
                    R.extra_faults["server_close"] += 1
            elif op["op"] == "replay_attack":
                s = gw.current_session()
                if s is not None and s.authenticated and s.session_response_raw and gw.replay is None:
                    gw.replay = [s.session_response_raw] + list(s.sent_wrappers)
                    R.extra_faults["cross_session_replay_attack"] += 1
                    s.conn.server_close(None)
                    gw.on_close(s.conn)

        for op in plan["ops"]:
            if op["op"] in ("inject", "send", "server_close", "replay_attack", "seq_exhaust"):
                loop.at(t0 + op["t"], (lambda o=op: do(o)), label="op")
        sh_task = None
        if cfg.get("shadow"):
            # a second secure session of the same process, to another device - which also numbers its sessions from 1: it
            # comes and goes while the judged session receives
            async def second_session():
                gw2 = SecureGateway(net, random.Random(plan["seed"] ^ 0x5AD0), ip="10.0.0.77")
                t2 = SecureTunnel(XKNX(), cemi_received_callback=lambda raw: None, gateway_ip=gw2.ip, gateway_port=gw2.port,
                                  user_id=2, user_password="user", device_authentication_password="dev", auto_reconnect=False)
                srng = random.Random(plan["seed"] ^ 0x5AD1)
                for _ in range(3):
                    await asyncio.sleep(srng.uniform(0.05, max(0.1, cfg["horizon"] / 4)))
                    try:
                        await t2.connect()
                        R.extra_faults["second_secure_session_connected_meanwhile"] += 1
                        await asyncio.sleep(srng.uniform(0.05, max(0.1, cfg["horizon"] / 4)))
                        await t2.disconnect()
                    except CommunicationError:
                        pass
            sh_task = loop.create_task(second_session())
        await asyncio.sleep(cfg["horizon"] + 2.0)
        if sh_task is not None:
            if not sh_task.done():
                await asyncio.wait([sh_task], timeout=30.0)
            if not sh_task.done():
                sh_task.cancel()
            await asyncio.gather(sh_task, return_exceptions=True)
        try:
            await tunnel.disconnect()
        except CommunicationError:
            pass
        except Exception as exc:  # pylint: disable=broad-except
            import traceback
            tb = traceback.extract_tb(exc.__traceback__)
            inner = next((f for f in reversed(tb) if "/xknx/" in f.filename), tb[-1])
            R.violate("C29.no-escape", f"{type(exc).__name__}@{inner.name}:from-disconnect",
                      f"Tunnel.disconnect() raised {exc!r} (session state left behind by an earlier handshake)")
        await asyncio.sleep(0.5)
        for t in tasks:
            if not t.done():
                t.cancel()
        await asyncio.gather(*tasks, return_exceptions=True)

    R.execute(main())
    # ------------------------------------------------------------------ oracle
    # frames the gateway sends as part of the protocol itself (SessionResponse, SessionStatus, ConnectResponse,
    # confirmations, ...) are genuine too: only the injected TunnellingRequests (ids 1..999) are compared
    got = [(svc, pid) for (svc, pid) in delivered if svc == W.TUNNEL_REQ and 0 < pid < 500]
    # a server close may cut frames that were in flight: the model list is an upper bound in order, then
    closed = any(o["op"] in ("server_close", "replay_attack") for o in plan["ops"])
    if "replay_from" in info:
        # the plain SessionResponse is the one frame a session takes before authentication; its MAC must then fail
        late = [d for d in delivered[info["replay_from"]:] if d[0] != W.SESSION_RES]
        if late:
            R.violate("C29.accept-only-fresh", "frames-of-an-earlier-session-accepted",
                      f"after the connection was taken over by a replaying attacker {len(late)} frames reached callbacks: {late[:4]}")
    exp = list(expected)
    if "early_seq" in info:
        pass   # the early wrapper must never be delivered (the session was not initialised yet)
    if cfg["bad_dev_mac"]:
        if info["connect"] == "ok":
            R.violate("C28.handshake-mac", "wrong-device-authentication-mac-accepted",
                      "SessionResponse carried a wrong device authentication MAC but the handshake completed")
        if got:
            R.violate("C29.accept-only-fresh", "frame-accepted-without-session", f"{got[:3]}")
    else:
        extra = [g for g in got if g not in exp]
        if extra:
            kinds = {o["id"]: o.get("k", o["op"]) for o in plan["ops"] if "id" in o}
            R.violate("C29.accept-only-fresh", f"accepted:{kinds.get(extra[0][1], '?')}",
                      f"frames delivered to callbacks that the reference model rejects: {extra[:4]}")
        dup = [g for g in set(got) if got.count(g) > 1]
        if dup:
            R.violate("C29.accept-only-fresh", "delivered-twice", f"{dup[:3]}")
        if not closed and not cfg["auth_fail"]:
            missing = [e for e in exp if e not in got]
            if missing:
                kinds = {o["id"]: o.get("k", o["op"]) for o in plan["ops"] if "id" in o}
                R.violate("C29.rejected-do-not-advance", f"fresh-frame-dropped:{kinds.get(missing[0][1], '?')}",
                          f"genuine fresh frames not delivered: {missing[:4]} (delivered {got[:8]})")
            order = [g for g in got if g in exp]
            if order != [e for e in exp if e in got]:
                R.violate("C29.accept-only-fresh", "delivered-out-of-order", f"{order[:6]} vs {exp[:6]}")
    # plain frames never delivered (except SessionResponse before authentication, which is consumed by the handshake)
    for (svc, pid) in delivered:
        if svc not in wrapped_svcs and svc != W.SESSION_RES:
            # generic form: whatever reaches callbacks was sent inside a wrapper (or is the SessionResponse of the handshake)
            R.violate("C29.accept-only-fresh", f"plain-frame-delivered:{W.SVC_NAMES.get(svc, hex(svc))}",
                      "a frame of a service type the gateway never sent wrapped reached callbacks")
        if svc in (W.ROUTING_IND, W.SEARCH_RES, W.DESCR_RES, W.TIMER_NOTIFY, W.SESSION_AUTH, W.SESSION_REQ):
            R.violate("C29.accept-only-fresh", f"plain-frame-delivered:{W.SVC_NAMES.get(svc)}", "a frame that was only ever sent in plain reached callbacks")
        if svc in (W.CONNSTATE_RES, W.DISCONNECT_REQ, W.TUNNEL_ACK) and pid in (200, 201, 202):
            R.violate("C29.accept-only-fresh", f"plain-frame-delivered:{W.SVC_NAMES.get(svc)}", "plain injected frame reached callbacks")
        if svc == W.CONNECT_RES and False:
            pass
    # client side, judged by the gateway
    for (clause, sig, detail) in gw.violations:
        R.violate(clause, sig, detail)
    if R.extra_faults.get("send_counter_moved_to_the_end_of_its_range"):
        # with an exhausted counter not even the SessionStatus CLOSE of the clean-up can be wrapped: the overflow error then
        # leaves whatever callback runs the clean-up. Reachable through the harness seam only (2^48 frames): recorded, not judged
        def _overflow(e):
            return e.get("type") == "IPSecureError" and "overflow" in str(e.get("msg", e.get("message", "")))
        n0 = len(R.net.protocol_escapes) + len(R.loop.escapes)
        R.net.protocol_escapes[:] = [e for e in R.net.protocol_escapes if not _overflow(e)]
        R.loop.escapes[:] = [e for e in R.loop.escapes if not _overflow(e)]
        R.probes["clean_up_failed_with_exhausted_send_counter"] += n0 - len(R.net.protocol_escapes) - len(R.loop.escapes)
    R.check_escapes("C29.no-escape")
    R.probes["client_wrappers_verified"] += gw.wrappers_checked
    R.probes["auth_macs_verified"] += gw.auth_mac_checked
    R.probes["sessions"] += len(gw.sessions)
    nontrivial = any(o["op"] in ("inject_at_accept", "early_wrapper") or (o["op"] == "inject" and o["k"] != "genuine")
                     for o in plan["ops"]) or "replay_from" in info
    abstract = [[(o["op"], o.get("k"), o.get("svc")) for o in plan["ops"]], cfg["chunk"], info["connect"], len(got)]
    return R.result(nontrivial=nontrivial, abstract=abstract)
