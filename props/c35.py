"""C35 — state updater reads exactly when its tracking policy says.

W-RUN: real StateUpdater, ValueReader, RemoteValue (inside real Switch devices),
TelegramQueue over the stub interface with a bus responder that answers reads
after a latency or never.  Histories of connect/disconnect, spontaneous state
telegrams, telegrams on the command address, device add/remove while running.
Oracle: per-tracker reference timers (lower bounds from the statement, upper
bounds as bounded progress) and a global in-progress counter.
"""

from __future__ import annotations

import asyncio
import random
from typing import Any

from sim import wire as W
from sim.runworld import make_xknx
from sim.world import Run
from sim import e2e as E

ID = "C35"
LEVEL = "exploration"
RUNS = {"quick": 20000, "thorough": 1800000}
BUDGET = {"quick": 100.0, "thorough": 3300.0}
RULE = ("one run = 1-6 Switch devices with seeded sync_state policies (init / expire n / every n / True / number / False) "
        "and answer latencies, and a seeded history of connection changes, state telegrams, command-address telegrams and "
        "device add/remove over several intervals of virtual time; non-trivial = at least one connection change, state "
        "update or unanswered read; distinct = distinct (policy vector, op kinds, reads per tracker)")
REAL = ["xknx.core.StateUpdater/_StateTracker", "xknx.core.ValueReader", "xknx.remote_value.RemoteValue(Switch)",
        "xknx.devices.Switch/Devices", "xknx.core.TelegramQueue", "xknx.cemi.CEMIHandler", "xknx.core.ConnectionManager"]
STUB = ["KNXIPInterface (StubInterface) with a bus responder answering GroupValueRead after a planned latency or never",
        "loop (SimLoop)"]
E2E_NOTE = ("whole-stack mode (1 run in 10): real XKNX.start() over a real UDP/TCP tunnel against the gateway + bus model of "
            "sim/e2e.py with datagram loss / duplication / delay, gateway crashes and disconnects; this module's clauses "
            "judged across the seams")

REAL = REAL + ["whole-stack mode: " + ", ".join(E.REAL)]
STUB = STUB + ["whole-stack mode: " + ", ".join(E.STUB)]
ASSUMPTIONS = [E2E_NOTE, "a read is 'in progress' from the instant its GroupValueRead is queued until its answer is delivered or 2 s passed",
               "upper bounds (bounded progress) allow 2 s per registered tracker plus 1 s for semaphore queueing"]

TIMEOUT = 2.0


def gen(seed: int, tier: str) -> dict[str, Any]:
    if seed % 10 == 7:
        # one run in 10: the same clauses across the seams, on the whole stack (sim/e2e.py)
        return E.gen(seed, tier, "C35")
    rng = random.Random(seed)
    n = rng.choice([1, 2, 3, 4, 6])
    unit = rng.choice([1, 1, 2, 60])
    devs = []
    for i in range(n):
        pol = rng.choice(["init", f"expire {unit}", f"every {unit}", True, unit, f"expire {unit * 2}", False,
                          f"every {unit * 3}"])
        devs.append({"sync": pol, "answer": rng.choice([0.01, 0.01, 0.3, 1.9, None]), "value": rng.randrange(2)})
    crowd = rng.random() < 0.3
    if crowd:
        # several trackers whose reads fall due together and queue behind the two read slots (slow / unanswered reads),
        # with state telegrams landing while reads are queued
        n = rng.choice([3, 4, 6])
        devs = [{"sync": rng.choice([f"expire {unit}", f"expire {unit}", f"every {unit}", unit]),
                 "answer": rng.choice([None, None, 1.9, 0.3, 0.01]), "value": rng.randrange(2)} for _ in range(n)]
    horizon = unit * 60.0 * rng.choice([0.5, 1.5, 3.2])
    ops: list[dict[str, Any]] = []
    m = rng.choice([0, 2, 5, 10, 20])
    for _ in range(m):
        base = rng.choice([rng.uniform(0, horizon), rng.uniform(0, 5.0), unit * 60.0 * rng.choice([1, 2, 3]) + rng.uniform(-3, 3)])
        if crowd and rng.random() < 0.6:
            base = unit * 60.0 * rng.choice([1, 1, 2, 3]) + rng.uniform(0.0, 2.0 * n)
        t = round(max(0.0, base), 6)
        k = rng.choices(["conn", "state_tg", "cmd_tg", "remove", "add", "reregister"], [3, 4, 4, 1, 1, 0.7])[0]
        op: dict[str, Any] = {"t": t, "op": k}
        if k == "conn":
            op["state"] = rng.choice(["CONNECTED", "DISCONNECTED", "CONNECTING"])
        else:
            op["i"] = rng.randrange(n)
            op["v"] = rng.randrange(2)
        ops.append(op)
    ops.sort(key=lambda o: o["t"])
    return {"seed": seed, "tier": "S", "config": {"batch": 1, "horizon": round(horizon, 3)}, "devices": devs, "ops": ops}


def parse_policy(p) -> tuple[str, float] | None:
    """Independent reading of the documented sync_state grammar -> (type, interval seconds)."""
    if p is False or p is None:
        return None
    if p is True:
        return ("expire", 3600.0)
    if isinstance(p, (int, float)):
        return ("expire", float(min(max(p, 1), 1440)) * 60.0)
    parts = p.split()
    typ = {"init": "init", "expire": "expire", "every": "every"}[parts[0].lower()]
    iv = 60.0
    if len(parts) > 1 and parts[1].isdigit():
        iv = float(min(max(int(parts[1]), 1), 1440))
    return (typ, iv * 60.0)


def run(plan: dict[str, Any]) -> dict[str, Any]:
    if plan["config"].get("mode") == "e2e":
        R, obs = E.run(plan)
        E.judge_c35(R, obs)
        return E.finish(R, obs)
    from xknx.core import XknxConnectionState
    from xknx.devices import Switch
    from xknx.telegram import GroupAddress

    cfg = plan["config"]
    R = Run(plan, max_time=1_000_000.0, max_iterations=3_000_000)
    loop = R.loop
    xknx, stub, q = make_xknx(R)
    n = len(plan["devices"])
    state_ga = [W.ga(5, 0, i + 1) for i in range(n)]
    cmd_ga = [W.ga(5, 1, i + 1) for i in range(n)]
    devs: list[Any] = []
    log: list[tuple[float, str, Any]] = []     # (t, kind, payload): harness' own history

    def on_send(raw: bytes, rec):
        c = W.parse_cemi_ldata(raw)
        if not c or not c["group"]:
            return
        if len(c["tpdu"]) == 2 and c["tpdu"][0] == 0 and c["tpdu"][1] == 0 and c["dst"] in state_ga:
            i = state_ga.index(c["dst"])
            lat = plan["devices"][i]["answer"]
            if lat is not None:
                v = plan["devices"][i]["value"]
                fr = W.cemi_ldata(W.L_DATA_IND, 0x1100 + i, c["dst"], tpci_apci=W.gv_response_small(v))

                def answer(i=i, fr=fr):
                    log.append((loop.time(), "answer", i))
                    stub.deliver(fr, "answer")
                loop.after(lat, answer, label="answer")
            else:
                R.extra_faults["read_unanswered"] += 1

    stub.on_send = on_send
    registered = [False] * n

    class Q(type(q)):
        pass

    orig_put = q.put_nowait

    def put(item):
        if item is not None and type(item.payload).__name__ == "GroupValueRead":
            a = item.destination_address.raw
            if a in state_ga:
                log.append((loop.time(), "read", state_ga.index(a)))
        return orig_put(item)

    q.put_nowait = put

    async def main():
        for i, d in enumerate(plan["devices"]):
            devs.append(Switch(xknx, f"s{i}", group_address=GroupAddress(cmd_ga[i]),
                               group_address_state=GroupAddress(state_ga[i]), sync_state=d["sync"]))
            xknx.devices.async_add(devs[i])
            registered[i] = True
            log.append((loop.time(), "register", i))
        await xknx.start()
        t0 = loop.time()
        log.append((t0, "conn", "CONNECTED"))

        def do(op):
            k = op["op"]
            now = loop.time()
            if k == "conn":
                log.append((now, "conn", op["state"]))
                xknx.connection_manager.connection_state_changed(XknxConnectionState[op["state"]])
                R.extra_faults["connection_change"] += 1
            elif k == "state_tg":
                log.append((now, "update_state", op["i"]))
                stub.deliver(W.cemi_ldata(W.L_DATA_IND, 0x1200, state_ga[op["i"]],
                                          tpci_apci=W.gv_write_small(op["v"])), "state")
                R.extra_faults["state_telegram"] += 1
            elif k == "cmd_tg":
                log.append((now, "update", op["i"]))
                stub.deliver(W.cemi_ldata(W.L_DATA_IND, 0x1200, cmd_ga[op["i"]],
                                          tpci_apci=W.gv_write_small(op["v"])), "cmd")
                R.extra_faults["command_address_telegram"] += 1
            elif k == "remove":
                if registered[op["i"]]:
                    xknx.devices.async_remove(devs[op["i"]])
                    registered[op["i"]] = False
                    log.append((now, "unregister", op["i"]))
                    R.extra_faults["unregister"] += 1
            elif k == "reregister":
                # the public, non-idempotent Device.register_state_updater() called for a registered device: the value's
                # tracker is replaced (= unregistered and registered anew at this instant)
                if registered[op["i"]]:
                    log.append((now, "unregister", op["i"]))
                    log.append((now, "register", op["i"]))
                    devs[op["i"]].register_state_updater()
                    R.extra_faults["registered_again"] += 1
            elif k == "add":
                if not registered[op["i"]]:
                    xknx.devices.async_add(devs[op["i"]])
                    registered[op["i"]] = True
                    log.append((now, "register", op["i"]))
                    R.extra_faults["register"] += 1

        for op in plan["ops"]:
            loop.at(t0 + op["t"], (lambda o=op: do(o)), label="op")
        await asyncio.sleep(cfg["horizon"] + 5.0)
        log.append((loop.time(), "end", None))
        await xknx.stop()

    R.execute(main())
    abstract = oracle(R, plan, log)
    R.check_escapes("C35.no-escape")
    return R.result(nontrivial=R.probes["nontrivial"] > 0, abstract=abstract)


def oracle(R, plan, log):
    n = len(plan["devices"])
    pol = [parse_policy(d["sync"]) for d in plan["devices"]]
    ntr = sum(1 for p in pol if p)
    slack = ntr * TIMEOUT + 1.0
    eps = 1e-6
    log = sorted(log, key=lambda e: e[0])   # stable: keeps insertion order within an instant
    t_end = log[-1][0]
    connected = False
    registered = [False] * n
    # per tracker state
    epoch_start: list[float | None] = [None] * n     # start of current (connected & registered) epoch
    reads_in_epoch = [0] * n
    last_read: list[float | None] = [None] * n
    last_complete: list[float | None] = [None] * n    # completion of the last read (answer or +2 s)
    last_update: list[float | None] = [None] * n
    updated_before_first_read = [False] * n           # expire: a fresh state makes the initial read unnecessary (unjudged)
    open_reads: list[tuple[int, float]] = []          # (tracker, t_put) still in progress
    reads_total = [0] * n
    max_inprog = 0

    def close_expired(now):
        nonlocal open_reads
        keep = []
        for (i, t) in open_reads:
            if now - t >= TIMEOUT - 1e-9 and not (abs(now - (t + TIMEOUT)) < 1e-9 and False):
                if last_complete[i] is None or last_complete[i] < t + TIMEOUT:
                    last_complete[i] = t + TIMEOUT
            else:
                keep.append((i, t))
        open_reads = keep

    def end_epoch(i, now):
        """Epoch of tracker i ends at `now`: bounded-progress obligations are evaluated here."""
        s = epoch_start[i]
        if s is None or not pol[i]:
            epoch_start[i] = None
            return
        typ, iv = pol[i]
        dur = now - s
        if reads_in_epoch[i] == 0 and dur > slack + eps and not (typ == "expire" and updated_before_first_read[i]):
            R.violate("C35.initial-read", "no-initial-read", f"tracker {i} ({typ}): connected and registered for {dur:.3f}s without a read")
        if reads_in_epoch[i] >= 1 and typ in ("every", "expire"):
            base = max(x for x in (last_complete[i] if last_complete[i] is not None else (last_read[i] or s) + TIMEOUT,
                                   last_update[i] if typ == "expire" and last_update[i] is not None else -1.0) )
            if now - base > iv + slack + eps:
                R.violate("C35.reads-again", f"{typ}:no-read-after-interval",
                          f"tracker {i} ({typ} {iv:.0f}s): nothing read for {now - base:.3f}s after the last read/update")
        epoch_start[i] = None

    def start_epoch(i, now):
        updated_before_first_read[i] = False
        epoch_start[i] = now
        reads_in_epoch[i] = 0
        last_read[i] = None
        last_complete[i] = None
        last_update[i] = None

    for (t, kind, p) in log:
        close_expired(t)
        if kind == "conn":
            was = connected
            connected = p == "CONNECTED"
            if was and not connected:
                for i in range(n):
                    if registered[i]:
                        end_epoch(i, t)
            elif connected and not was:
                for i in range(n):
                    if registered[i]:
                        start_epoch(i, t)
        elif kind == "register":
            registered[p] = True
            if connected:
                start_epoch(p, t)
        elif kind == "unregister":
            if connected:
                end_epoch(p, t)
            registered[p] = False
        elif kind in ("update", "update_state"):
            i = p
            if kind == "update_state":
                # a write/response on the state address also answers a read in progress (ValueReader accepts both)
                for (j, tr) in list(open_reads):
                    if j == i:
                        open_reads.remove((j, tr))
                        last_complete[i] = t
            if registered[i]:
                last_update[i] = t
                if reads_in_epoch[i] == 0:
                    updated_before_first_read[i] = True
            R.probes["nontrivial"] += 1
        elif kind == "answer":
            i = p
            for (j, tr) in list(open_reads):
                if j == i:
                    open_reads.remove((j, tr))
                    last_complete[i] = t
            if registered[i]:
                last_update[i] = t
                if reads_in_epoch[i] == 0:
                    updated_before_first_read[i] = True   # late answer to a read of the previous epoch
        elif kind == "read":
            i = p
            reads_total[i] += 1
            if not pol[i]:
                R.violate("C35.only-tracked", "read-for-untracked-value", f"value {i} has sync_state={plan['devices'][i]['sync']!r} but was read at {t}")
                continue
            typ, iv = pol[i]
            if not connected:
                R.violate("C35.not-while-disconnected", "read-while-not-connected", f"tracker {i} read at {t} while not CONNECTED")
            if not registered[i]:
                R.violate("C35.not-unregistered", "read-for-unregistered-value", f"tracker {i} read at {t} after it was unregistered")
            if epoch_start[i] is not None:
                k = reads_in_epoch[i]
                if k >= 1:
                    if typ == "init":
                        R.violate("C35.init-once", "init-tracker-read-again", f"tracker {i} (init) read #{k + 1} in one connection epoch at {t}")
                    else:
                        # lower bound demanded by the statement: a full interval since the previous read was
                        # issued and (expire) since the last state update - never more than that
                        base = last_read[i]
                        if typ == "expire" and last_update[i] is not None:
                            base = max(base, last_update[i])
                        if t - base < iv - eps:
                            R.violate("C35.interval", f"{typ}:read-too-early",
                                      f"tracker {i} ({typ} {iv:.0f}s): read at {t:.6f}, only {t - base:.6f}s after the last read/update at {base:.6f}")
                reads_in_epoch[i] += 1
                last_read[i] = t
                last_complete[i] = None
            open_reads.append((i, t))
            if len(open_reads) > max_inprog:
                max_inprog = len(open_reads)
            if len(open_reads) > 2:
                R.violate("C35.parallel-reads", f"reads_in_progress={min(len(open_reads), 9)}",
                          f"at {t:.6f}: reads in progress {[(j, round(tt, 6)) for j, tt in open_reads]}")
        elif kind == "end":
            if connected:
                for i in range(n):
                    if registered[i]:
                        end_epoch(i, t)
    R.probes[f"max_reads_in_progress_{max_inprog}"] += 1
    if any(o["op"] == "conn" for o in plan["ops"]) or any(d["answer"] is None for d in plan["devices"]):
        R.probes["nontrivial"] += 1
    return [tuple((parse_policy(d["sync"]) or ("off", 0))[0] for d in plan["devices"]),
            [o["op"] for o in plan["ops"]], tuple(min(r, 9) for r in reads_total)]
