"""C37 — the device registry dispatches each telegram to exactly the right devices.

W-RUN: real Devices registry with real devices of many classes sharing group
addresses (incl. passive and internal addresses), add / remove / re-add /
illegal add and remove histories interleaved with queued-but-unprocessed
telegrams and connection changes.  Oracle: naive scan over the harness' own
record of which device was configured with which address, at dispatch time.
"""

from __future__ import annotations

import asyncio
import random
from typing import Any

from sim import wire as W
from sim.runworld import make_xknx
from sim.world import Run

ID = "C37"
LEVEL = "exploration"
RUNS = {"quick": 25000, "thorough": 1800000}
BUDGET = {"quick": 100.0, "thorough": 3300.0}
RULE = ("one run = 2-8 real devices of seeded classes and addresses (shared, passive, internal) and a seeded history of "
        "add/remove/re-add/illegal ops, telegrams and connection changes; non-trivial = at least one address shared by "
        ">=2 registered devices at some dispatch or an add/remove between a telegram's queueing and its dispatch; "
        "distinct = distinct (device kinds, per-dispatch expected device lists)")
REAL = ["xknx.devices.Devices", "xknx.devices.* (Switch, BinarySensor, Light, Cover, Sensor, NumericValue, ExposeSensor, "
        "Scene, Notification, Fan, RawValue, Weather, ClimateMode, Climate)", "xknx.core.TelegramQueue",
        "xknx.core.StateUpdater", "xknx.remote_value.*"]
STUB = ["KNXIPInterface (StubInterface)", "loop (SimLoop)"]
ASSUMPTIONS = ["which device uses which address is taken from the constructor arguments the harness chose",
               "a dispatch in which a device raises is judged only up to and including the raising device"]

POOL: list[Any] = [W.ga(1, 1, 1), W.ga(1, 1, 2), W.ga(1, 1, 3), W.ga(2, 0, 1), W.ga(2, 0, 2), W.ga(7, 7, 7), "i-one", "i-two"]
KINDS: dict[str, list[str]] = {
    "Switch": ["group_address", "group_address_state"],
    "BinarySensor": ["group_address_state"],
    "Light": ["group_address_switch", "group_address_switch_state", "group_address_brightness"],
    "Cover": ["group_address_long", "group_address_short", "group_address_position", "group_address_position_state"],
    "Sensor": ["group_address_state"],
    "NumericValue": ["group_address", "group_address_state"],
    "ExposeSensor": ["group_address"],
    "Scene": ["group_address"],
    "Notification": ["group_address", "group_address_state"],
    "Fan": ["group_address_speed", "group_address_switch"],
    "RawValue": ["group_address", "group_address_state"],
    "Weather": ["group_address_temperature", "group_address_brightness_south"],
    "ClimateMode": ["group_address_operation_mode", "group_address_controller_status"],
    "Climate": ["group_address_temperature", "group_address_target_temperature_state"],
}
EXTRA: dict[str, dict[str, Any]] = {
    "Sensor": {"value_type": "temperature"}, "NumericValue": {"value_type": "percent"},
    "ExposeSensor": {"value_type": "percent"}, "RawValue": {"payload_length": 1},
}


def gen(seed: int, tier: str) -> dict[str, Any]:
    rng = random.Random(seed)
    nd = rng.choice([2, 3, 5, 8])
    pool = rng.sample(POOL, rng.choice([2, 3, 5]))
    devs = []
    for i in range(nd):
        kind = rng.choice(list(KINDS))
        params = {}
        names = KINDS[kind]
        # some devices have no group address at all (a legal configuration: nothing is dispatched to them)
        for p in rng.sample(names, 0 if rng.random() < 0.12 else rng.randint(1, len(names))):
            if rng.random() < 0.3:
                params[p] = [rng.choice(pool) for _ in range(rng.randint(2, 3))]   # active + passive addresses
            else:
                params[p] = rng.choice(pool)
        # " " is not a valid tracker option: registering such a device fails half way through async_add (in
        # register_state_updater, after the device was entered into the registry)
        devs.append({"kind": kind, "params": params,
                     "sync": " " if rng.random() < 0.06 else rng.choice([True, False, "init", "expire 60"])})
    # a Climate may own a ClimateMode (`mode=`) that is - or is not - registered as a device of its own as well: the
    # Climate then also answers for the mode's addresses
    modes = [j for j, d in enumerate(devs) if d["kind"] == "ClimateMode"]
    for idx_, d in enumerate(devs):
        earlier = [j for j in modes if j < idx_]
        if d["kind"] == "Climate" and earlier and rng.random() < 0.7:
            d["mode_of"] = rng.choice(earlier)
    if rng.random() < 0.12:
        devs.append({"kind": "ClimateMode", "params": {"group_address_operation_mode": rng.choice(pool)}, "sync": False})
        devs.append({"kind": "Climate", "params": {"group_address_temperature": rng.choice(pool)}, "sync": False,
                     "mode_of": len(devs) - 1})
        nd = len(devs)
    ops: list[dict[str, Any]] = []
    t = 0.0
    for i in range(nd):
        if rng.random() < 0.7:
            ops.append({"t": 0.0, "op": "add", "i": i})
    n = rng.choice([4, 8, 16, 30])
    tg = 0
    for _ in range(n):
        t += rng.choice([0.0, 0.0, 0.0005, 0.01, 0.2, 1.0])
        r = rng.random()
        if r < 0.45:
            tg += 1
            ops.append({"t": round(t, 6), "op": "tg", "n": tg, "addr": rng.choice(pool),
                        "apci": rng.choice(["write", "write", "response", "read"]),
                        "data": rng.choice(["bin", "b1", "b2"]), "dir": rng.choice(["in", "in", "out"])})
            if rng.random() < 0.15:
                # the registry changes from inside the dispatch (a device_updated_cb / process hook removing or adding a
                # device): devices registered throughout must still each process the telegram once, in order
                ops[-1]["act"] = {"by": rng.randrange(nd), "a": rng.choice(["remove_self", "remove", "add", "nested", "nested"]),
                                  "j": rng.randrange(nd),
                                  # "nested": that device's hook hands another telegram (to this address) to the registry
                                  # while the outer one is still being dispatched
                                  "addr": rng.choice(pool)}
        elif r < 0.65:
            ops.append({"t": round(t, 6), "op": "add", "i": rng.randrange(nd)})
        elif r < 0.85:
            ops.append({"t": round(t, 6), "op": "remove", "i": rng.randrange(nd)})
        else:
            ops.append({"t": round(t, 6), "op": "conn", "state": rng.choice(["CONNECTED", "DISCONNECTED", "CONNECTING"])})
    return {"seed": seed, "tier": "S", "config": {"batch": 1, "started_first": rng.random() < 0.8},
            "devices": devs, "ops": ops}


def run(plan: dict[str, Any]) -> dict[str, Any]:
    import xknx.devices as D
    from xknx.core import XknxConnectionState
    from xknx.dpt import DPTArray, DPTBinary
    from xknx.telegram import GroupAddress, Telegram, TelegramDirection
    from xknx.telegram.address import InternalGroupAddress
    from xknx.telegram.apci import GroupValueRead, GroupValueResponse, GroupValueWrite

    R = Run(plan, max_time=5000.0)
    loop = R.loop
    xknx, stub, q = make_xknx(R)
    registered: list[int] = []       # harness model: registration order
    dispatches: list[dict[str, Any]] = []
    addr_sets: list[set] = []
    devobjs: list[Any] = []

    def norm(a):
        return a

    for spec in plan["devices"]:
        s = set()
        for v in spec["params"].values():
            for a in (v if isinstance(v, list) else [v]):
                s.add(a)
        addr_sets.append(s)
    for i_, spec in enumerate(plan["devices"]):
        if spec.get("mode_of") is not None:
            addr_sets[i_] = addr_sets[i_] | addr_sets[spec["mode_of"]]

    def addr_of(tg):
        d = tg.destination_address
        return d.raw if isinstance(d, (GroupAddress, InternalGroupAddress)) else None

    by_tg: dict[int, dict[str, Any]] = {}
    keep: list[Any] = []
    acts: dict[int, dict[str, Any]] = {}

    def rec_for(tg):
        r = by_tg.get(id(tg))
        if r is None:
            keep.append(tg)   # keeps id() unique for the whole run
            r = by_tg[id(tg)] = {"addr": addr_of(tg), "snapshot": list(registered), "calls": [], "raised": None,
                                 "payload": type(tg.payload).__name__, "dir": tg.direction.name}
            dispatches.append(r)
        return r

    def sentinel(tg):
        rec_for(tg)

    def conv(v):
        def one(a):
            return a if isinstance(a, str) else GroupAddress(a)
        return [one(a) for a in v] if isinstance(v, list) else one(v)

    async def main():
        xknx.telegram_queue.register_telegram_received_cb(sentinel, match_for_outgoing=True)
        for i, spec in enumerate(plan["devices"]):
            cls = getattr(D, spec["kind"])
            kw = {k: conv(v) for k, v in spec["params"].items()}
            kw.update(EXTRA.get(spec["kind"], {}))
            if spec["kind"] not in ("ExposeSensor", "Scene"):
                kw["sync_state"] = spec["sync"]
            if spec.get("mode_of") is not None:
                kw["mode"] = devobjs[spec["mode_of"]]      # ClimateMode devices come earlier in the list
            dev = cls(xknx, f"d{i}", **kw)
            orig = dev.process

            def wrapped(tg, i=i, orig=orig):
                r = rec_for(tg)
                r["calls"].append(i)
                try:
                    return orig(tg)
                except Exception as exc:
                    if r["raised"] is None:
                        r["raised"] = (i, type(exc).__name__)
                    raise
                finally:
                    act = acts.pop(id(tg), None)
                    if act is not None and act["by"] != i:
                        acts[id(tg)] = act
                    elif act is not None and act["a"] == "nested":
                        a2 = act["addr"]
                        tg2 = Telegram(destination_address=InternalGroupAddress(a2) if isinstance(a2, str) else GroupAddress(a2),
                                       payload=GroupValueWrite(DPTBinary(1)), direction=TelegramDirection.INCOMING)
                        R.extra_faults["nested_dispatch_from_a_device_hook"] += 1
                        rec_for(tg2)
                        try:
                            xknx.devices.process(tg2)
                        except Exception:  # pylint: disable=broad-except
                            pass
                    elif act is not None:
                        j = i if act["a"] == "remove_self" else act["j"]
                        try:
                            if act["a"] == "add":
                                xknx.devices.async_add(devobjs[j])
                                registered.append(j)
                            else:
                                xknx.devices.async_remove(devobjs[j])
                                registered.remove(j)
                            r.setdefault("changed", set()).add(j)
                            R.extra_faults["registry_change_in_dispatch"] += 1
                        except Exception:  # pylint: disable=broad-except
                            now_in = any(d is devobjs[j] for d in xknx.devices)
                            if now_in and j not in registered:
                                registered.append(j)
                            elif not now_in and j in registered:
                                registered.remove(j)
                            r.setdefault("changed", set()).add(j)

            dev.process = wrapped
            devobjs.append(dev)
        if plan["config"]["started_first"]:
            await xknx.start()
        t0 = loop.time()
        pending_q: list[int] = []

        def do(op):
            k = op["op"]
            if k == "add":
                i = op["i"]
                before = list(xknx.devices)
                try:
                    xknx.devices.async_add(devobjs[i])
                    if i in registered:
                        R.violate("C37.illegal-ops", "duplicate-add-accepted", f"device {i} added twice without error")
                    registered.append(i)
                except ValueError:
                    if i not in registered:
                        R.violate("C37.illegal-ops", "legal-add-rejected", f"device {i} not registered but add raised")
                    if list(xknx.devices) != before:
                        R.violate("C37.illegal-ops", "failed-add-changed-registry", f"device {i}")
                    R.extra_faults["illegal_add"] += 1
                except Exception:  # pylint: disable=broad-except
                    # the add failed half way (device set-up raised). Whether the device counts as registered afterwards is
                    # the registry's choice - but iteration, index and dispatch must agree on it (checked below / at dispatch)
                    R.extra_faults["add_failed_half_way"] += 1
                    now_in = any(d is devobjs[i] for d in xknx.devices)
                    if now_in and i not in registered:
                        registered.append(i)
                    elif not now_in and i in registered:
                        registered.remove(i)
            elif k == "remove":
                i = op["i"]
                before = list(xknx.devices)
                try:
                    xknx.devices.async_remove(devobjs[i])
                    if i not in registered:
                        R.violate("C37.illegal-ops", "remove-of-unregistered-accepted", f"device {i}")
                    else:
                        registered.remove(i)
                except ValueError:
                    if i in registered:
                        R.violate("C37.illegal-ops", "legal-remove-rejected", f"device {i} registered but remove raised")
                    if list(xknx.devices) != before:
                        R.violate("C37.illegal-ops", "failed-remove-changed-registry", f"device {i}")
                    R.extra_faults["illegal_remove"] += 1
                except Exception:  # pylint: disable=broad-except
                    R.probes["remove_raised_other_exception"] += 1
                    now_in = any(d is devobjs[i] for d in xknx.devices)
                    if not now_in and i in registered:
                        registered.remove(i)
            elif k == "conn":
                xknx.connection_manager.connection_state_changed(XknxConnectionState[op["state"]])
                R.extra_faults["connection_change"] += 1
            else:
                data = {"bin": DPTBinary(op["n"] & 1), "b1": DPTArray((op["n"] & 0xFF,)),
                        "b2": DPTArray((op["n"] >> 8 & 0xFF, op["n"] & 0xFF))}[op["data"]]
                payload = {"write": GroupValueWrite(data), "response": GroupValueResponse(data),
                           "read": GroupValueRead()}[op["apci"]]
                a = op["addr"]
                dst = InternalGroupAddress(a) if isinstance(a, str) else GroupAddress(a)
                tg_ = Telegram(
                    destination_address=dst, payload=payload,
                    direction=TelegramDirection.OUTGOING if op["dir"] == "out" else TelegramDirection.INCOMING)
                if op.get("act"):
                    keep.append(tg_)
                    acts[id(tg_)] = op["act"]
                xknx.telegrams.put_nowait(tg_)
            # registry view must equal the model at all times
            got = [devobjs.index(d) for d in xknx.devices]
            if got != registered:
                R.violate("C37.registry", "iteration-order!=registration-order", f"registry {got}, model {registered}")
            for a in POOL:
                ga = InternalGroupAddress(a) if isinstance(a, str) else GroupAddress(a)
                idx = [devobjs.index(d) for d in xknx.devices.devices_by_group_address(ga)]
                want = [i for i in registered if a in addr_sets[i]]
                if idx != want:
                    R.violate("C37.registry", "devices_by_group_address!=scan", f"address {a}: index {idx}, scan {want}")

        tl = 0.0
        for op in plan["ops"]:
            loop.at(t0 + op["t"], (lambda o=op: do(o)), label="op")
            tl = max(tl, op["t"])
        if not plan["config"]["started_first"]:
            await asyncio.sleep(tl * 0.5)
            await xknx.start()
            await asyncio.sleep(tl * 0.5 + 3.0)
        else:
            await asyncio.sleep(tl + 3.0)
        await xknx.stop()

    R.execute(main())
    abstract: list[Any] = [tuple(d["kind"] for d in plan["devices"])]
    for d in dispatches:
        want = [i for i in d["snapshot"] if d["addr"] in addr_sets[i]]
        calls = d["calls"]
        if d.get("changed"):
            # devices added or removed from inside this dispatch are unjudged for it; all others as usual
            ch = d["changed"]
            calls = [c for c in calls if c not in ch]
            want = [w for w in want if w not in ch]
        if d["raised"] is not None:
            cut = calls.index(d["raised"][0]) + 1 if d["raised"][0] in calls else len(calls)
            want_c = want[:cut]
            R.probes["device_raised_" + d["raised"][1]] += 1
        else:
            want_c = want
        if len(want) >= 2:
            R.probes["nontrivial"] += 1
        abstract.append((len(want), d["payload"], d["dir"], d["raised"] is not None))
        if calls != want_c:
            extra = [c for c in calls if c not in want]
            missing = [w for w in want_c if w not in calls]
            dup = [c for c in set(calls) if calls.count(c) > 1]
            sig = ("device-processed-twice" if dup else "wrong-device-processed" if extra else
                   "device-missed" if missing else "order!=registration-order")
            R.violate("C37.dispatch", sig,
                      f"telegram to {d['addr']} ({d['payload']}, {d['dir']}): processed by {calls}, naive scan says {want_c} "
                      f"(registered {d['snapshot']})")
    R.check_escapes("C37.no-escape")
    return R.result(nontrivial=R.probes["nontrivial"] > 0, abstract=abstract)
