"""C36 — registered tasks follow connection state and never run twice.

W-RUN: real TaskRegistry / Task on a real XKNX's ConnectionManager.  Seeded
sequences of start_task / remove_task / registry stop()/start() and connection
state changes for tasks with every option combination, under virtual time.
Invocation times are compared with an exact reference computed from the options.
"""

from __future__ import annotations

import asyncio
import random
from typing import Any

from sim.world import Run

ID = "C36"
LEVEL = "exploration"
RUNS = {"quick": 50000, "thorough": 3600000}
BUDGET = {"quick": 100.0, "thorough": 3300.0}
RULE = ("one run = 1-3 tasks with seeded options (restart_after_reconnect, wait_before_start, wait_for_connection, "
        "repeat_after, sync/async target with a duration) and a seeded op sequence (start/remove/stop/start registry, "
        "connection changes) whose instants are drawn to coincide with task timers; non-trivial = at least one "
        "connection change or remove/stop while an instance is alive; distinct = distinct (option vector, op kinds, "
        "expected invocation count)")
REAL = ["xknx.core.TaskRegistry", "xknx.core.task_registry.Task", "xknx.core.ConnectionManager"]
STUB = ["task targets (instrumented sync/async callables)", "loop (SimLoop)"]
ASSUMPTIONS = ["an r-task the user explicitly starts while disconnected is unjudged until the next connection change",
               "no two user operations share one virtual instant (they may coincide with task timers; an operation then "
               "runs first, as an I/O event does on a selector loop)"]

STATES = ["CONNECTED", "DISCONNECTED", "CONNECTING"]


def gen(seed: int, tier: str) -> dict[str, Any]:
    rng = random.Random(seed)
    nt = rng.choice([1, 1, 2, 3])
    tasks = []
    for i in range(nt):
        tasks.append({
            "r": rng.random() < 0.6, "w": rng.choice([0, 0, 0.5, 2.0]), "c": rng.random() < 0.5,
            "p": rng.choice([None, None, 0.5, 3.0, 10.0]), "d": rng.choice([0.0, 0.0, 0.25, 4.0]),
            "sync": rng.random() < 0.3,
        })
        if tasks[-1]["sync"]:
            tasks[-1]["d"] = 0.0
    grid = [0.0, 0.25, 0.5, 0.75, 1.0, 2.0, 2.5, 3.0, 3.5, 4.0, 4.5, 5.0, 6.0, 7.5, 10.0, 12.5, 20.0]
    ops: list[dict[str, Any]] = []
    n = rng.choice([2, 4, 7, 12])
    used = set()
    for _ in range(n):
        t = rng.choice(grid) + rng.choice([0.0, 0.0, 0.0, 1e-6, 0.1])
        while t in used:
            t = round(t + 0.0625, 6)
        used.add(t)
        k = rng.choices(["conn", "start_task", "remove_task", "reg_stop", "reg_start"], [6, 4, 2, 1, 1])[0]
        op: dict[str, Any] = {"t": round(t, 6), "op": k}
        if k == "conn":
            op["state"] = rng.choice(STATES)
        if k in ("start_task", "remove_task"):
            op["i"] = rng.randrange(nt)
        ops.append(op)
    if rng.random() < 0.25:
        # a task object that survives a registry stop: stop, start, start the same task again, then connection changes /
        # removal / another stop have to treat it like any registered task
        tb = rng.choice(grid[3:13]) + 0.0311
        i = rng.randrange(nt)
        ops.append({"t": round(tb, 6), "op": "reg_stop"})
        ops.append({"t": round(tb + 0.05, 6), "op": "reg_start"})
        ops.append({"t": round(tb + 0.1, 6), "op": "start_task", "i": i})
        ops.append({"t": round(tb + 0.1 + rng.choice([0.3, 1.1, 2.7]), 6), "op": "conn", "state": "DISCONNECTED"})
        ops.append({"t": round(tb + 3.2, 6), "op": "conn", "state": "CONNECTED"})
        ops.append({"t": round(tb + rng.choice([3.9, 6.3]), 6), "op": rng.choice(["remove_task", "reg_stop"]), "i": i})
    ops.sort(key=lambda o: o["t"])
    # the statement says nothing about starting the registry twice or about tasks started on a stopped
    # registry (which does not listen to connection changes): such operations are not generated
    started = True
    clean = []
    for o in ops:
        if o["op"] == "reg_start":
            if started:
                continue
            started = True
        elif o["op"] == "reg_stop":
            if not started:
                continue
            started = False
        elif o["op"] == "start_task" and not started:
            continue
        clean.append(o)
    ops = clean
    return {"seed": seed, "tier": "S", "config": {"batch": 1, "initial": rng.choice(["CONNECTED", "DISCONNECTED"]),
                                                   "initial_started": [rng.random() < 0.7 for _ in range(nt)],
                                                   "shadow": rng.random() < 0.25},
            "tasks": tasks, "ops": ops}


# --------------------------------------------------------------------------- reference model
def model(plan, horizon: float, t0: float = 0.0):
    """Returns (expected invocation starts [(task, t)], expected cancels of running invocations [(task, t)], unjudged tasks)."""
    tasks = plan["tasks"]
    nt = len(tasks)
    state = plan["config"]["initial"]
    registry_started = True
    registered = [False] * nt
    inst: list[dict[str, Any] | None] = [None] * nt   # live instance: {"next": ("wait"|"invoke"|"end_invoke"|"waitconn"), "t": time}
    unjudged = [False] * nt
    exp_starts: list[tuple[int, float]] = []
    exp_cancels: list[tuple[int, float]] = []
    exp_ends: list[tuple[int, float]] = []
    # absolute virtual times, so that float arithmetic is identical to the loop's (when = time() + delay)
    ops = [{"t": t0, "op": "start_task", "i": i} for i in range(nt) if plan["config"]["initial_started"][i]] + \
        [dict(o, t=t0 + o["t"]) for o in plan["ops"]]
    horizon = t0 + horizon
    oi = 0

    def new_instance(i, now):
        o = tasks[i]
        inst[i] = {"phase": "top", "t": now}
        advance(i, now)

    def advance(i, now):
        """Run the coroutine of instance i forward from its phase at time `now` until it blocks."""
        o = tasks[i]
        s = inst[i]
        while True:
            ph = s["phase"]
            if ph == "top":
                if o["w"]:
                    s["phase"] = "after_w"
                    s["t"] = now + o["w"]
                    return
                s["phase"] = "after_w"
                continue
            if ph == "after_w":
                if o["c"] and state != "CONNECTED":
                    if o["r"]:
                        inst[i] = None   # returns silently; reconnected() will restart it
                        return
                    s["phase"] = "waitconn"
                    s["t"] = None
                    return
                s["phase"] = "invoke"
                continue
            if ph == "invoke":
                exp_starts.append((i, now))
                if o["d"] > 0:
                    s["phase"] = "running"
                    s["t"] = now + o["d"]
                    return
                exp_ends.append((i, now))
                s["phase"] = "after_run"
                continue
            if ph == "running":
                exp_ends.append((i, now))
                s["phase"] = "after_run"
                continue
            if ph == "after_run":
                if o["p"] is None:
                    inst[i] = None
                    return
                s["phase"] = "top"
                s["t"] = now + o["p"]
                s["sleeping_repeat"] = True
                return

    def cancel(i, now):
        s = inst[i]
        if s is None:
            return
        if s["phase"] == "running":
            exp_cancels.append((i, now))
        inst[i] = None

    def apply(op, now):
        nonlocal state, registry_started
        k = op["op"]
        if k == "start_task":
            i = op["i"]
            cancel(i, now)
            registered[i] = True
            if tasks[i]["r"] and state != "CONNECTED":
                unjudged[i] = True
            new_instance(i, now)
        elif k == "remove_task":
            i = op["i"]
            if registered[i]:
                cancel(i, now)
                registered[i] = False
        elif k == "reg_stop":
            registry_started = False
            for i in range(nt):
                if registered[i]:
                    cancel(i, now)
                    registered[i] = False
        elif k == "reg_start":
            registry_started = True
        elif k == "conn":
            if op["state"] == state:
                return
            state = op["state"]
            # non-registry waiters on the connected event
            if registry_started:
                for i in range(nt):
                    if not registered[i]:
                        continue
                    if state == "CONNECTED":
                        if tasks[i]["r"]:
                            cancel(i, now)
                            unjudged[i] = False
                            new_instance(i, now)
                    else:
                        if tasks[i]["r"]:
                            cancel(i, now)
                            unjudged[i] = False
            if state == "CONNECTED":
                for i in range(nt):
                    s = inst[i]
                    if s is not None and s["phase"] == "waitconn":
                        s["phase"] = "invoke"
                        s["t"] = now
                        s["woken"] = True

    while True:
        # next time: earliest of next op and instance timers
        cand = []
        if oi < len(ops):
            cand.append(ops[oi]["t"])
        for i in range(nt):
            s = inst[i]
            if s is not None and s.get("t") is not None:
                cand.append(s["t"])
        if not cand:
            break
        now = min(cand)
        if now > horizon:
            break
        # ops first (I/O style events precede timers of the same instant)
        while oi < len(ops) and ops[oi]["t"] == now:
            apply(ops[oi], now)
            oi += 1
        for i in range(nt):
            s = inst[i]
            if s is not None and s.get("t") is not None and s["t"] == now:
                if s["phase"] == "top" and s.pop("sleeping_repeat", None):
                    pass
                s["t"] = None
                advance(i, now)
    return exp_starts, exp_cancels, exp_ends, unjudged


def run(plan: dict[str, Any]) -> dict[str, Any]:
    from xknx import XKNX
    from xknx.core import XknxConnectionState
    from xknx.core.task_registry import Task

    R = Run(plan, max_time=5000.0)
    loop = R.loop
    starts: list[tuple[int, float]] = []
    ends: list[tuple[int, float]] = []
    cancels: list[tuple[int, float]] = []
    running = [0] * len(plan["tasks"])
    info: dict[str, Any] = {}

    async def main():
        xknx = XKNX()
        reg = xknx.task_registry
        cm = xknx.connection_manager
        if plan["config"]["initial"] == "CONNECTED":
            cm.connection_state_changed(XknxConnectionState.CONNECTED)
        reg.start()
        t0 = loop.time()
        info["t0"] = t0
        objs = []
        for i, o in enumerate(plan["tasks"]):
            def mk(i=i, o=o):
                def enter():
                    starts.append((i, loop.time()))
                    R.record("invoke", i, "")
                    running[i] += 1
                    if running[i] > 1:
                        R.violate("C36.never-twice", "overlapping-invocations", f"task {i} invoked while its previous invocation runs")
                    if o["r"] and cm.state != XknxConnectionState.CONNECTED:
                        info.setdefault("invoked_disconnected", []).append((i, loop.time()))

                if o["sync"]:
                    def target():
                        enter()
                        running[i] -= 1
                        ends.append((i, loop.time()))
                    return target

                async def atarget():
                    enter()
                    try:
                        if o["d"] > 0:
                            await asyncio.sleep(o["d"])
                        ends.append((i, loop.time()))
                    except asyncio.CancelledError:
                        cancels.append((i, loop.time()))
                        R.record("cancelled", i, "")
                        raise
                    finally:
                        running[i] -= 1
                return atarget

            objs.append(Task(f"t{i}", mk(), restart_after_reconnect=o["r"], wait_before_start=o["w"],
                             wait_for_connection=o["c"], repeat_after=o["p"]))

        def do(op):
            k = op["op"]
            R.record("op", k, op.get("i", op.get("state", "")))
            if k == "start_task":
                reg.start_task(objs[op["i"]])
            elif k == "remove_task":
                reg.remove_task(objs[op["i"]])
            elif k == "reg_stop":
                reg.stop()
            elif k == "reg_start":
                reg.start()
            elif k == "conn":
                cm.connection_state_changed(XknxConnectionState[op["state"]])

        reg2 = None
        if plan["config"].get("shadow"):
            # a second XKNX object of the same process with tasks of its own: its connection is lost and comes back at other
            # times, its registry is stopped in the middle of the run
            xknx2 = XKNX()
            reg2, cm2 = xknx2.task_registry, xknx2.connection_manager
            cm2.connection_state_changed(XknxConnectionState.CONNECTED)
            reg2.start()

            async def other():
                await asyncio.sleep(3600.0)
            for j in range(2):
                reg2.start_task(Task(f"t{j}", other, restart_after_reconnect=True, wait_for_connection=bool(j), repeat_after=1.0))
            R.extra_faults["second_xknx_object_with_its_own_connection_changes"] += 1
        for i in range(len(objs)):
            if plan["config"]["initial_started"][i]:
                do({"op": "start_task", "i": i})
        tl = 0.0
        for op in plan["ops"]:
            loop.at(t0 + op["t"], (lambda o=op: do(o)), label="op")
            tl = max(tl, op["t"])
        horizon = tl + 25.0
        info["horizon"] = horizon
        if reg2 is not None:
            srng = random.Random(plan["seed"] ^ 0x5AD0)
            for k_ in range(4):
                tt_ = t0 + srng.uniform(0.0, tl + 5.0)
                st_ = [XknxConnectionState.DISCONNECTED, XknxConnectionState.CONNECTING, XknxConnectionState.CONNECTED][k_ % 3]
                loop.at(tt_, (lambda st=st_: cm2.connection_state_changed(st)), label="op2")
            loop.at(t0 + srng.uniform(0.0, tl + 5.0), reg2.stop, label="op2")
        await asyncio.sleep(horizon + 1e-4)
        if reg2 is not None:
            reg2.stop()
        reg.stop()
        info["stop_t"] = loop.time()
        await asyncio.sleep(30.0)
        me = asyncio.current_task()
        info["alive"] = sorted(t.get_name() for t in asyncio.all_tasks(loop) if t is not me and not t.done())

    R.execute(main())
    horizon = info.get("horizon", 0.0)
    t0 = info.get("t0", 0.0)
    exp_starts, exp_cancels, exp_ends, unjudged = model(plan, horizon, t0)
    horizon = t0 + horizon
    nt = len(plan["tasks"])
    rnd = lambda lst: sorted((i, round(t, 6)) for (i, t) in lst)
    for i in range(nt):
        got = [round(t, 9) for (j, t) in starts if j == i and t <= horizon]
        want = [round(t, 9) for (j, t) in exp_starts if j == i]
        if unjudged[i] or _ever_unjudged(plan, i):
            R.probes["unjudged_user_start_while_disconnected"] += 1
            continue
        if got != want:
            k = 0
            while k < len(got) and k < len(want) and got[k] == want[k]:
                k += 1
            g = got[k] if k < len(got) else None
            w = want[k] if k < len(want) else None
            if w is None:
                clause, sig = "C36.follows-connection", "unexpected-invocation"
            elif g is None:
                clause, sig = "C36.follows-connection", "missing-invocation"
            else:
                clause, sig = "C36.timing", "invocation-at-wrong-time"
            R.violate(clause, sig, f"task {i} opts={plan['tasks'][i]}: invocations {got[:8]}, reference {want[:8]} (first diff #{k})")
        gc_ = [round(t, 9) for (j, t) in cancels if j == i and t <= horizon]
        wc = [round(t, 9) for (j, t) in exp_cancels if j == i]
        if gc_ != wc:
            R.violate("C36.cancelled", "running-invocation-not-cancelled-at-op" if len(gc_) < len(wc) else "unexpected-cancel",
                      f"task {i}: cancels of running invocations {gc_}, reference {wc}")
    # after registry stop nothing runs, nothing alive
    late = [(i, t) for (i, t) in starts if t > info.get("stop_t", 1e18) + 1e-9]
    if late:
        R.violate("C36.stop-leaves-nothing", "invocation-after-stop", f"invocations after registry.stop(): {late[:4]}")
    if info.get("alive"):
        R.violate("C36.stop-leaves-nothing", "task-alive-after-stop:" + info["alive"][0], f"alive: {info['alive']}")
    for (i, t) in info.get("invoked_disconnected", []):
        if not (unjudged[i] or _ever_unjudged(plan, i)):
            R.violate("C36.follows-connection", "r-task-invoked-while-disconnected", f"task {i} at {t}")
    nontrivial = any(o["op"] in ("conn", "remove_task", "reg_stop") for o in plan["ops"])
    R.extra_faults["connection_changes"] += sum(1 for o in plan["ops"] if o["op"] == "conn")
    R.extra_faults["user_ops"] += sum(1 for o in plan["ops"] if o["op"] != "conn")
    abstract = [tuple((o["r"], bool(o["w"]), o["c"], o["p"] is not None, o["d"] > 0, o["sync"]) for o in plan["tasks"]),
                [o["op"] + str(o.get("state", "")) for o in plan["ops"]], len(exp_starts)]
    return R.result(nontrivial=nontrivial, abstract=abstract)


def _ever_unjudged(plan, i) -> bool:
    """True if task i (restart_after_reconnect) is ever explicitly started while not CONNECTED."""
    if not plan["tasks"][i]["r"]:
        return False
    state = plan["config"]["initial"]
    if plan["config"]["initial_started"][i] and state != "CONNECTED":
        return True
    for o in plan["ops"]:
        if o["op"] == "conn":
            state = o["state"]
        elif o["op"] == "start_task" and o["i"] == i and state != "CONNECTED":
            return True
    return False
